"""Parameterised objective families for the solver properties (C01, C04, C05, C19).

One Python function f(x, p) per dimension n carries every family: its coefficients live in the Params
slots, so a single optimism Objective (compiled once per n and worker) serves thousands of problems.

f(x; c) = 1/2 x^T A x - b^T x + q sum x^4 + r sum (x_{i+1} - x_i^2)^2 + sum_j c_j cos(a_j.x) + sum_j s_j softplus(w_j.x - d_j)
coefficient vector layout: A (n*n), b (n), q, r, c (M), a (M*n), s (M), w (M*n), d (M)
The vector is split over slot 0 ("bc_data": b) and slot 2 ("design_data": everything else), so both
parameter slots that warm starts differentiate are exercised.
"""
import math

import numpy as onp
from hypothesis import strategies as st

from vlib import gen

M = 3


def sizes(n):
    return [n * n, 1, 1, M, M * n, M, M * n, M]          # design slot: A q r c a s w d


def unpack(np, n, b, dsg):
    o = 0
    out = []
    for k in sizes(n):
        out.append(dsg[o:o + k])
        o += k
    A, q, r, c, a, s, w, d = out
    return A.reshape(n, n), b, q[0], r[0], c, a.reshape(M, n), s, w.reshape(M, n), d


def make_f(n):
    import jax.numpy as np
    import jax

    def f(x, p):
        A, b, q, r, c, a, s, w, d = unpack(np, n, p[0], p[2])
        val = 0.5 * x @ (A @ x) - b @ x + q * np.sum(x ** 4)
        if n > 1:
            val = val + r * np.sum((x[1:] - x[:-1] ** 2) ** 2)
        val = val + np.sum(c * np.cos(a @ x)) + np.sum(s * jax.nn.softplus(w @ x - d))
        return val
    return f


def make_fabs(n):
    import jax.numpy as np
    import jax

    def fabs(x, p):
        A, b, q, r, c, a, s, w, d = unpack(np, n, p[0], p[2])
        ax = np.abs(x)
        val = 0.5 * ax @ (np.abs(A) @ ax) + np.abs(b) @ ax + np.abs(q) * np.sum(x ** 4)
        if n > 1:
            val = val + np.abs(r) * np.sum((ax[1:] + x[:-1] ** 2) ** 2)
        val = val + np.sum(np.abs(c)) + np.sum(np.abs(s) * jax.nn.softplus(np.abs(w) @ ax + np.abs(d)))
        return val
    return fabs


FAMILIES = ('spdquad', 'quartic', 'indefinite', 'valley', 'rosen', 'cos', 'softplus')
CONVEX = ('spdquad', 'quartic', 'softplus')


@st.composite
def coefficients(draw, n, family=None, cond_exp=(0.0, 8.0)):
    fam = family or FAMILIES[draw(st.integers(0, len(FAMILIES) - 1))]
    G = onp.array(draw(st.lists(gen.floats(-1, 1), min_size=n * n, max_size=n * n))).reshape(n, n)
    Q, _ = onp.linalg.qr(G + 3 * onp.eye(n))
    u = onp.array(sorted(draw(st.lists(gen.floats(0, 1), min_size=n, max_size=n))))
    ce = draw(gen.floats(*cond_exp))
    lam = 10.0 ** (-ce * u)
    q = r = 0.0
    c = onp.zeros(M)
    a = onp.zeros((M, n))
    s = onp.zeros(M)
    w = onp.zeros((M, n))
    d = onp.zeros(M)
    b = onp.array(draw(st.lists(gen.floats(-2, 2), min_size=n, max_size=n)))
    if fam == 'quartic':
        q = draw(gen.logfloat(-2, 1))
    elif fam == 'indefinite':
        k = draw(st.integers(1, max(1, n // 2)))
        lam[:k] *= -1
        q = draw(gen.logfloat(-1, 1))
    elif fam == 'valley':
        lam[:max(1, n // 2)] = 0.0
        q = draw(gen.logfloat(-1, 1))
        b = Q @ (onp.where(lam == 0.0, 0.0, 1.0) * (Q.T @ b))          # minimiser has a singular Hessian direction
    elif fam == 'rosen':
        lam = lam * 1e-3
        r = draw(gen.logfloat(0, 3))
        q = 1e-3
    elif fam == 'cos':
        lam = lam * 1e-2 + 1e-3
        c = onp.array(draw(st.lists(gen.floats(-2, 2), min_size=M, max_size=M)))
        a = onp.array(draw(st.lists(gen.floats(-3, 3), min_size=M * n, max_size=M * n))).reshape(M, n)
    elif fam == 'softplus':
        lam = lam * 1e-2 + 1e-3
        s = onp.array(draw(st.lists(gen.floats(0.1, 3), min_size=M, max_size=M)))
        w = onp.array(draw(st.lists(gen.floats(-2, 2), min_size=M * n, max_size=M * n))).reshape(M, n)
        d = onp.array(draw(st.lists(gen.floats(-2, 2), min_size=M, max_size=M)))
    scale = draw(gen.logfloat(-2, 2))
    A = (Q * lam) @ Q.T
    A = 0.5 * (A + A.T)
    dsg = onp.concatenate([A.ravel(), [q], [r], c, a.ravel(), s, w.ravel(), d]) * scale
    return {'family': fam, 'n': n, 'b': (b * scale).tolist(), 'design': dsg.tolist(), 'scale': scale,
            'lam_min': float(lam.min() * scale), 'lam_max': float(onp.abs(lam).max() * scale)}


def params(np, coef, Objective):
    return Objective.Params(np.array(coef['b']), None, np.array(coef['design']))


def dense_minimiser(n, coef, x0, tol=1e-13, iters=200):
    """Checker-side damped Newton on the raw function (convex families): returns x*, |grad|."""
    import jax
    import jax.numpy as np
    key = ('newton', n)
    if key not in _CACHE:
        f = make_f(n)
        _CACHE[key] = (jax.jit(f), jax.jit(jax.grad(f)), jax.jit(jax.hessian(f)))
    fv, g, h = _CACHE[key]

    class P(tuple):
        pass
    p = (np.array(coef['b']), None, np.array(coef['design']))
    x = onp.array(x0, dtype=float)
    for _ in range(iters):
        gr = onp.asarray(g(np.array(x), p))
        if onp.linalg.norm(gr) < tol:
            break
        H = onp.asarray(h(np.array(x), p))
        try:
            dx = -onp.linalg.solve(H, gr)
        except onp.linalg.LinAlgError:
            break
        t = 1.0
        f0 = float(fv(np.array(x), p))
        while t > 1e-12 and not float(fv(np.array(x + t * dx), p)) <= f0 + 1e-4 * t * float(gr @ dx):
            t *= 0.5
        x = x + t * dx
    return x, float(onp.linalg.norm(onp.asarray(g(np.array(x), p))))


_CACHE = {}


def raw_functions(n):
    """(value, fabs, gradient, hessian) jitted from the raw family function, independent of any Objective object."""
    import jax
    key = ('raw', n)
    if key not in _CACHE:
        f = make_f(n)
        _CACHE[key] = (jax.jit(f), jax.jit(make_fabs(n)), jax.jit(jax.grad(f)), jax.jit(jax.hessian(f)))
    return _CACHE[key]
