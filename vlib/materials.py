"""Material model configurations shared by C08-C11 (and C02/C10).

A configuration names a library factory plus its string options; the numeric properties travel in a vector
so that ONE compiled function per configuration serves every generated parameter set (the factories are
called inside the traced function, as the library's own inverse-problem code does).
"""
import math

import numpy as onp
from hypothesis import strategies as st

from vlib import gen


class Cfg:
    def __init__(self, name, family, finite, pnames, options, state='none', modulus_index=0):
        self.name = name
        self.family = family
        self.finite = finite            # formulated in finite deformations (objective / isotropic)
        self.pnames = pnames            # names of the numeric properties, in vector order
        self.options = dict(options)    # string options
        self.state = state              # 'none' | 'j2' | 'visco1' | 'visco3' | 'pf'
        self.modulus_index = modulus_index

    def props(self, pvec):
        d = {n: pvec[i] for i, n in enumerate(self.pnames)}
        d.update(self.options)
        return d


HARDENING = {
    'linear': ['hardening modulus'],
    'voce': ['saturation strength', 'reference plastic strain'],
    'power law': ['hardening exponent', 'reference plastic strain'],
}


def all_configs():
    c = []
    for sm in ('linear', 'green lagrange', 'logarithmic'):
        c.append(Cfg('linear-elastic/' + sm, 'linear-elastic', sm != 'linear', ['elastic modulus', 'poisson ratio'], {'strain measure': sm}))
    for v in ('adagio', 'coupled'):
        c.append(Cfg('neohookean/' + v, 'neohookean', True, ['elastic modulus', 'poisson ratio'], {'version': v}))
    c.append(Cfg('gent', 'gent', True, ['bulk modulus', 'shear modulus', 'Jm parameter'], {}))
    for kin, fin in (('small deformations', False), ('large deformations', True), ('seth hill', True)):
        for h, extra in HARDENING.items():
            for rate in (False, True):
                pn = ['elastic modulus', 'poisson ratio', 'yield strength'] + extra
                opt = {'kinematics': kin, 'hardening model': h}
                if rate:
                    pn = pn + ['rate sensitivity stress', 'rate sensitivity exponent', 'reference plastic strain rate']
                    opt['rate sensitivity'] = 'power law'
                c.append(Cfg('j2/%s/%s%s' % (kin.split()[0], h, '/rate' if rate else ''), 'j2', fin, pn, opt, state='j2'))
    c.append(Cfg('visco1', 'visco1', True, ['equilibrium bulk modulus', 'equilibrium shear modulus', 'non equilibrium shear modulus',
                                            'relaxation time'], {}, state='visco1'))
    c.append(Cfg('visco3', 'visco3', True, ['equilibrium bulk modulus', 'equilibrium shear modulus'] +
                 [x for n in (1, 2, 3) for x in ('non equilibrium shear modulus %d' % n, 'relaxation time %d' % n)], {}, state='visco3'))
    for kin, fin in (('small deformations', False), ('large deformations', True)):
        c.append(Cfg('pf-threshold/' + kin.split()[0], 'pf', fin, ['elastic modulus', 'poisson ratio', 'critical energy release rate',
                                                                 'regularization length'], {'kinematics': kin}, state='pf'))
    return {x.name: x for x in c}


CONFIGS = all_configs()


def factory(cfg):
    if cfg.family == 'linear-elastic':
        from optimism.material import LinearElastic as M
        return M.create_material_model_functions
    if cfg.family == 'neohookean':
        from optimism.material import Neohookean as M
        return M.create_material_model_functions
    if cfg.family == 'gent':
        from optimism.material import Gent as M
        return M.create_material_functions
    if cfg.family == 'j2':
        from optimism.material import J2Plastic as M
        return M.create_material_model_functions
    if cfg.family == 'visco1':
        from optimism.material import HyperViscoelastic as M
        return M.create_material_model_functions
    if cfg.family == 'visco3':
        from optimism.material import MultiBranchHyperViscoelastic as M
        return M.create_material_model_functions
    if cfg.family == 'pf':
        from optimism.phasefield import PhaseFieldThreshold as M
        return M.create_material_model_functions
    raise ValueError(cfg.family)


def make_model(cfg, pvec):
    """Library model object for the given numeric properties (works with traced pvec)."""
    import contextlib
    import io
    with contextlib.redirect_stdout(io.StringIO()):      # the visco factories print their properties
        return factory(cfg)(cfg.props(pvec))


def energy_fn(cfg):
    """W(H, state, dt, pvec) through the library's public MaterialModel interface."""
    import jax.numpy as np

    def W(H, state, dt, pvec):
        m = make_model(cfg, pvec)
        if cfg.family == 'pf':
            return m.compute_energy_density(H, 0.0, np.zeros(2), state, dt)
        return m.compute_energy_density(H, state, dt)
    return W


def state_new_fn(cfg):
    import jax.numpy as np

    def S(H, state, dt, pvec):
        m = make_model(cfg, pvec)
        if cfg.family == 'pf':
            return m.compute_state_new(H, 0.0, np.zeros(2), state, dt)
        return m.compute_state_new(H, state, dt)
    return S


def qoi_fn(cfg):
    def Q(H, state, dt, pvec):
        m = make_model(cfg, pvec)
        return m.compute_material_qoi(H, state, dt)
    return Q


def library_initial_state(cfg, pvec):
    """The virgin state as the library itself defines it (MaterialModel.compute_initial_state)."""
    m = make_model(cfg, [float(x) for x in pvec])
    return onp.asarray(m.compute_initial_state(), dtype=float).ravel()


def initial_state(cfg):
    if cfg.state == 'none':
        return onp.zeros(0)
    if cfg.state == 'j2':
        if cfg.options['kinematics'] == 'large deformations':
            return onp.concatenate([[0.0], onp.eye(3).ravel()])
        return onp.zeros(10)
    if cfg.state == 'visco1':
        return onp.eye(3).ravel()
    if cfg.state == 'visco3':
        return onp.tile(onp.eye(3).ravel(), 3)
    if cfg.state == 'pf':
        return onp.zeros(1)


@st.composite
def properties(draw, cfg, yield_ratio=(-5, -1)):
    """Admissible numeric properties (vector in cfg.pnames order) and the stiffness scale."""
    E = draw(gen.logfloat(-2, 4))
    nu = draw(gen.floats(-0.5, 0.45))
    vals = {}
    K = E / 3 / (1 - 2 * nu)
    mu = 0.5 * E / (1 + nu)
    vals['elastic modulus'] = E
    vals['poisson ratio'] = nu
    vals['bulk modulus'] = K
    vals['shear modulus'] = mu
    vals['Jm parameter'] = draw(gen.floats(3.0, 100.0))
    # yield strain Y0/E over four decades (soft pure metals are near 1e-4), as decimal exponents
    Y0 = E * draw(gen.logfloat(*yield_ratio))
    vals['yield strength'] = Y0
    vals['hardening modulus'] = E * draw(st.sampled_from([0.001, 0.01, 0.1, 1.0, 0.0]))
    vals['saturation strength'] = Y0 * draw(gen.floats(1.1, 3.0))
    vals['reference plastic strain'] = draw(gen.logfloat(-3, 0))
    vals['hardening exponent'] = draw(gen.floats(1.0, 20.0))
    vals['rate sensitivity stress'] = Y0 * draw(gen.floats(0.01, 1.0))
    vals['rate sensitivity exponent'] = draw(gen.floats(1.0, 10.0))
    vals['reference plastic strain rate'] = draw(gen.logfloat(-3, 1))
    vals['equilibrium bulk modulus'] = K
    vals['equilibrium shear modulus'] = mu
    vals['non equilibrium shear modulus'] = mu * draw(gen.logfloat(-2, 2))
    # absolute time scales over ten decades (microseconds to hours): a relative dt/tau must mean the same at each of them
    vals['relaxation time'] = draw(gen.logfloat(-7, 3))
    for n in (1, 2, 3):
        vals['non equilibrium shear modulus %d' % n] = mu * draw(gen.logfloat(-2, 2))
        vals['relaxation time %d' % n] = draw(gen.logfloat(-7, 3))
    vals['critical energy release rate'] = draw(gen.logfloat(-2, 2))
    vals['regularization length'] = draw(gen.logfloat(-2, 0))
    pvec = [float(vals[n]) for n in cfg.pnames]
    stiff = max(K, mu)
    if cfg.family == 'visco1':
        stiff += vals['non equilibrium shear modulus']
    if cfg.family == 'visco3':
        stiff += sum(vals['non equilibrium shear modulus %d' % n] for n in (1, 2, 3))
    return {'pvec': pvec, 'stiff': float(stiff), 'E': E, 'nu': nu, 'mu': mu, 'K': K, 'Y0': Y0,
            'taus': [vals['relaxation time']] if cfg.family == 'visco1' else [vals['relaxation time %d' % n] for n in (1, 2, 3)]}
