"""Shared runner for the property-based checks (see DESIGN.md section 2).

A property module (checks/cXX_*.py) exposes

    PROPERTY     = 'C12'
    RULE         = 'how cases are generated and what makes one non-trivial'
    ASSUMPTIONS  = [...]
    SUBCHECKS    = [Sub(...), ...]
    KNOWN_MATCH  = {'D1': lambda sub, case, failure: bool}     (optional)

Every sub-check is a Hypothesis strategy producing a JSON-serialisable case
dictionary plus a function check(case) -> Result.  The runner shards each
sub-check over worker processes, seeds every shard from VERIF_SEED, shrinks
failures, writes the shrunk case as a replay file and aggregates evidence.

Exit codes: 0 held, 1 violation (VIOLATION line printed), 2 harness error.
"""
import collections
import contextlib
import hashlib
import importlib
import io
import json
import math
import os
import signal
import sys
import time
import traceback

VERIF_DIR = os.path.dirname(os.path.dirname(os.path.abspath(__file__)))
REPO = os.path.abspath(os.environ.get('VERIF_REPO', '/repo'))
LEVEL = 'exploration'


# ----------------------------------------------------------------------------
# environment
# ----------------------------------------------------------------------------

def setup_process_env():
    """Must run before jax is imported in a process."""
    flags = os.environ.get('XLA_FLAGS', '')
    for f in ('--xla_cpu_multi_thread_eigen=false', 'intra_op_parallelism_threads=1',
              '--xla_cpu_enable_fast_math=false'):
        if f not in flags:
            flags = (flags + ' ' + f).strip()
    os.environ['XLA_FLAGS'] = flags
    os.environ.setdefault('JAX_PLATFORMS', 'cpu')
    for v in ('OMP_NUM_THREADS', 'OPENBLAS_NUM_THREADS', 'MKL_NUM_THREADS'):
        os.environ.setdefault(v, '1')
    if REPO not in sys.path[:1]:
        sys.path.insert(0, REPO)
    if VERIF_DIR not in sys.path:
        sys.path.insert(1, VERIF_DIR)
    shim = os.path.join(VERIF_DIR, 'shims')
    if shim not in sys.path:
        sys.path.append(shim)      # at the END: a real scikit-sparse wins
    deps = os.path.join(VERIF_DIR, '.deps')
    if os.path.isdir(deps) and deps not in sys.path:
        sys.path.append(deps)


def assert_repo_under_test():
    import optimism
    f = os.path.abspath(optimism.__file__)
    if not f.startswith(REPO + os.sep):
        raise HarnessError('optimism imported from %s, expected under %s' % (f, REPO))


class HarnessError(Exception):
    pass


class CaseTimeout(Exception):
    pass


# ----------------------------------------------------------------------------
# data model
# ----------------------------------------------------------------------------

class Failure:
    def __init__(self, clause, detail='', **data):
        self.clause = clause
        self.detail = detail
        self.data = data

    def to_json(self):
        return {'clause': self.clause, 'detail': self.detail, 'data': jsonable(self.data)}

    def __repr__(self):
        return 'Failure(%s: %s)' % (self.clause, self.detail)


class Result:
    """Outcome of one check(case) call.

    fails        list of Failure (empty = held)
    classes      labels describing which branch / class the case exercised
    nontrivial   bool, or an int count when the case is a batch
    n_eval       how many individual evaluations the case stands for
    keys         optional distinct keys of the non-trivial items of a batch
    inconclusive None or a label (solver raised a documented non-return, ...)
    """
    __slots__ = ('fails', 'classes', 'nontrivial', 'n_eval', 'keys', 'inconclusive', 'info')

    def __init__(self, fails=None, classes=(), nontrivial=False, n_eval=1, keys=None,
                 inconclusive=None, info=None):
        if fails is None:
            fails = []
        elif isinstance(fails, Failure):
            fails = [fails]
        self.fails = list(fails)
        self.classes = tuple(classes)
        self.nontrivial = nontrivial
        self.n_eval = n_eval
        self.keys = keys
        self.inconclusive = inconclusive
        self.info = info


class Sub:
    def __init__(self, name, strategy, check, quick=200, thorough=5000, shards_quick=4,
                 shards_thorough=16, required=(), timeout=120.0, budget_quick=150.0,
                 budget_thorough=600.0, doc='', explicit=(), timeout_is_violation=False):
        self.name = name
        self.strategy = strategy          # zero-argument callable returning a strategy
        self.check = check
        self.quick = quick                # examples per shard
        self.thorough = thorough
        self.shards_quick = shards_quick
        self.shards_thorough = shards_thorough
        self.required = tuple(required)
        self.timeout = timeout
        self.budget_quick = budget_quick  # wall seconds per shard; hit => inconclusive remainder
        self.budget_thorough = budget_thorough
        self.doc = doc
        self.explicit = tuple(explicit)   # fixed cases always run first in shard 0
        self.timeout_is_violation = timeout_is_violation


def jsonable(o):
    import numpy as onp
    if isinstance(o, dict):
        return {str(k): jsonable(v) for k, v in o.items()}
    if isinstance(o, (list, tuple)):
        return [jsonable(v) for v in o]
    if isinstance(o, (str, bool)) or o is None:
        return o
    if isinstance(o, (int,)):
        return o
    if isinstance(o, float):
        return o
    if isinstance(o, onp.generic):
        return jsonable(o.item())
    if hasattr(o, '__array__'):
        return jsonable(onp.asarray(o).tolist())
    if isinstance(o, complex):
        return [o.real, o.imag]
    return repr(o)


def case_hash(case):
    s = json.dumps(jsonable(case), sort_keys=True)
    return hashlib.sha1(s.encode()).hexdigest()[:16]


def truncate(o, maxlen=24):
    """Shorten long arrays in a sample so evidence stays readable."""
    if isinstance(o, dict):
        return {k: truncate(v, maxlen) for k, v in o.items()}
    if isinstance(o, list):
        if len(o) > maxlen:
            return [truncate(v, maxlen) for v in o[:maxlen]] + ['... %d more' % (len(o) - maxlen)]
        return [truncate(v, maxlen) for v in o]
    return o


# ----------------------------------------------------------------------------
# known findings
# ----------------------------------------------------------------------------

def load_known(prop):
    path = os.path.join(VERIF_DIR, 'known_findings.json')
    if not os.path.exists(path):
        return []
    with open(path) as f:
        data = json.load(f)
    return [e for e in data.get('findings', []) if prop in e.get('properties', [e.get('property')])]


def match_known(module, known, sub_name, case, failure):
    """Return the id of the open known finding that covers this failure, or None."""
    preds = getattr(module, 'KNOWN_MATCH', {})
    for e in known:
        if e.get('status') != 'open':
            continue
        subs = e.get('subs', '*')
        if subs != '*' and sub_name not in subs:
            continue
        clauses = e.get('clauses', '*')
        if clauses != '*' and not any(failure.clause == c or failure.clause.startswith(c + ':')
                                      for c in clauses):
            continue
        pred = preds.get(e['id'])
        if pred is not None:
            try:
                if not pred(sub_name, case, failure):
                    continue
            except Exception:
                continue
        return e['id']
    return None


# ----------------------------------------------------------------------------
# running a single case
# ----------------------------------------------------------------------------

def _innermost_pkg_frame(tb):
    """(file, func) of the innermost traceback frame that lies in the repository under test."""
    hit = None
    for fr in traceback.extract_tb(tb):
        fn = os.path.abspath(fr.filename)
        if fn.startswith(REPO + os.sep):
            hit = (os.path.relpath(fn, REPO), fr.name)
    return hit


@contextlib.contextmanager
def time_limit(seconds):
    def handler(signum, frame):
        raise CaseTimeout()
    old = signal.signal(signal.SIGALRM, handler)
    signal.setitimer(signal.ITIMER_REAL, seconds)
    try:
        yield
    finally:
        signal.setitimer(signal.ITIMER_REAL, 0)
        signal.signal(signal.SIGALRM, old)


def run_case(sub, case):
    """Call sub.check(case); convert exceptions raised from inside the repository under test into
    a 'raises' failure bucketed by (type, innermost repository frame); anything else is a harness
    error and propagates."""
    try:
        with time_limit(sub.timeout):
            res = sub.check(case)
    except CaseTimeout:
        if not getattr(sub, 'timeout_is_violation', False):
            return Result(inconclusive='timeout')
        # the routine under test has no iteration cap: re-run once alone with three times the budget; only a second
        # timeout is reported ("did not return")
        try:
            with time_limit(3 * sub.timeout):
                res = sub.check(case)
        except CaseTimeout:
            return Result(fails=[Failure('did-not-return', 'no result within %.0f s and again within %.0f s'
                                         % (sub.timeout, 3 * sub.timeout))], classes=('timeout',), nontrivial=True)
    except HarnessError:
        raise
    except Exception as e:
        import hypothesis.errors
        if isinstance(e, hypothesis.errors.HypothesisException) or \
                type(e).__name__ in ('UnsatisfiedAssumption', 'StopTest', 'Frozen'):
            raise
        fr = _innermost_pkg_frame(e.__traceback__)
        if fr is None:
            raise
        msg = ('%s' % (e,)).splitlines()[0][:200] if str(e) else ''
        return Result(fails=[Failure('raises:%s@%s:%s' % (type(e).__name__, fr[0], fr[1]),
                                     msg)], classes=('raised',), nontrivial=True)
    if res is None:
        res = Result()
    return res


class _Violation(Exception):
    pass


def _quiet_stdout():
    sys.stdout.flush()
    devnull = open(os.devnull, 'w')
    return contextlib.redirect_stdout(devnull)


@contextlib.contextmanager
def capture_stdout():
    buf = io.StringIO()
    with contextlib.redirect_stdout(buf):
        yield buf


# ----------------------------------------------------------------------------
# one shard (runs in a worker process)
# ----------------------------------------------------------------------------

_FAST_EXIT = [False]


class _BudgetStop(KeyboardInterrupt):
    """Raised inside the property when the shard's wall budget is exhausted before any failure was seen."""


def run_shard(module_name, sub_name, shard, tier, seed):
    t0 = time.time()
    out = {'sub': sub_name, 'shard': shard, 'evaluations': 0, 'cases': 0, 'nt_hashes': [],
           'classes': {}, 'samples': [], 'excluded_known': {}, 'inconclusive': {},
           'violation': None, 'harness_error': None, 'budget_hit': False, 'wall_s': 0.0,
           'known_samples': {}}
    try:
        setup_process_env()
        import hypothesis
        from hypothesis import given, settings, HealthCheck, Phase
        module = importlib.import_module(module_name)
        assert_repo_under_test()
        sub = {s.name: s for s in module.SUBCHECKS}[sub_name]
        known = load_known(module.PROPERTY)
        n = sub.quick if tier == 'quick' else sub.thorough
        budget = sub.budget_quick if tier == 'quick' else sub.budget_thorough
        nt = set()
        classes = collections.Counter()
        excl = collections.Counter()
        incon = collections.Counter()
        state = {'last_fail': None}

        def one(case):
            if time.time() - t0 > budget and state['last_fail'] is None:
                out['budget_hit'] = True      # remaining examples are not generated (inconclusive); never while shrinking
                raise _BudgetStop()           # a KeyboardInterrupt subclass: Hypothesis lets it propagate unchanged
            res = run_case(sub, case)
            out['cases'] += 1
            out['evaluations'] += int(res.n_eval)
            for c in res.classes:
                classes[c] += 1
            if res.inconclusive:
                incon[res.inconclusive] += 1
            if res.keys is not None:
                nt.update(res.keys)
            elif res.nontrivial:
                nt.add(case_hash(case))
            if res.nontrivial and len(out['samples']) < 3:
                out['samples'].append({'sub': sub_name, 'case': truncate(jsonable(case)),
                                       'classes': list(res.classes)})
            for f in res.fails:
                kid = match_known(module, known, sub_name, case, f)
                if kid is not None:
                    excl[kid] += 1
                    if kid not in out['known_samples']:
                        out['known_samples'][kid] = {'sub': sub_name, 'failure': f.to_json()}
                    continue
                state['last_fail'] = (jsonable(case), f)
                raise _Violation(repr(f))

        with _quiet_stdout():
            if shard == 0:
                for case in sub.explicit:
                    try:
                        one(case)
                    except (_Violation, _BudgetStop):
                        break
            if state['last_fail'] is None:
                phases = [Phase.generate, Phase.target] + ([] if os.environ.get('VERIF_NO_SHRINK') == '1' else [Phase.shrink])
                test = given(sub.strategy())(lambda case: one(case))
                test = settings(max_examples=n, database=None, deadline=None, derandomize=False,
                                report_multiple_bugs=False, phases=phases,
                                suppress_health_check=list(HealthCheck))(test)
                test = hypothesis.seed(seed)(test)
                try:
                    test()
                except _Violation:
                    pass
                except _BudgetStop:
                    pass
                except BaseException as e:      # noqa
                    # Hypothesis reports a failure that did not reproduce while shrinking as Flaky; the last failing case
                    # that was actually observed is still a genuine counterexample and is reported unshrunk
                    if state['last_fail'] is None or 'Flaky' not in type(e).__name__:
                        raise
                    out['flaky'] = True
        if state['last_fail'] is not None:
            case, f = state['last_fail']
            out['violation'] = {'sub': sub_name, 'case': case, 'failure': f.to_json(),
                                'seed': seed, 'shard': shard}
        out['nt_hashes'] = sorted(str(h) for h in nt)
        out['classes'] = dict(classes)
        out['excluded_known'] = dict(excl)
        out['inconclusive'] = dict(incon)
    except BaseException as e:      # noqa: harness error, never a violation
        out['harness_error'] = '%s: %s\n%s' % (type(e).__name__, e, traceback.format_exc()[-3000:])
    out['wall_s'] = time.time() - t0
    return out


def run_replays(module_name, paths):
    """Run committed replay files; returns list of dicts (path, sub, failure|None, known|None)."""
    res = []
    try:
        setup_process_env()
        module = importlib.import_module(module_name)
        assert_repo_under_test()
        subs = {s.name: s for s in module.SUBCHECKS}
        known = load_known(module.PROPERTY)
        with _quiet_stdout():
            for p in paths:
                with open(p) as f:
                    rep = json.load(f)
                sub = subs.get(rep['sub'])
                if sub is None:
                    res.append({'path': p, 'error': 'unknown sub %s' % rep['sub']})
                    continue
                r = run_case(sub, rep['case'])
                entry = {'path': p, 'sub': rep['sub'], 'failure': None, 'known': None,
                         'classes': list(r.classes), 'n_eval': int(r.n_eval),
                         'nontrivial': bool(r.nontrivial), 'hash': case_hash(rep['case']),
                         'inconclusive': r.inconclusive}
                for f in r.fails:
                    kid = match_known(module, known, rep['sub'], rep['case'], f)
                    if kid is not None:
                        entry['known'] = kid
                        entry['known_failure'] = f.to_json()
                    else:
                        entry['failure'] = f.to_json()
                        break
                res.append(entry)
    except BaseException as e:      # noqa
        return {'harness_error': '%s: %s\n%s' % (type(e).__name__, e,
                                                 traceback.format_exc()[-3000:])}
    return res


# ----------------------------------------------------------------------------
# orchestration (main process)
# ----------------------------------------------------------------------------

def write_replay(prop, viol):
    d = os.path.join(VERIF_DIR, 'replays', prop, 'found')
    os.makedirs(d, exist_ok=True)
    h = case_hash(viol['case'])
    clause = ''.join(ch if ch.isalnum() else '_' for ch in viol['failure']['clause'])[:40]
    path = os.path.join(d, '%s-%s-%s.json' % (viol['sub'], clause, h))
    with open(path, 'w') as f:
        json.dump({'property': prop, 'sub': viol['sub'], 'case': viol['case'],
                   'failure': viol['failure'], 'seed': viol.get('seed'),
                   'note': 'shrunk by Hypothesis; replay with run_check.py %s --replay <this file>'
                           % prop}, f, indent=1)
    return path


def main(argv=None):
    import argparse
    ap = argparse.ArgumentParser()
    ap.add_argument('prop')
    ap.add_argument('--tier', default=os.environ.get('VERIF_TIER', 'quick'),
                    choices=['quick', 'thorough'])
    ap.add_argument('--replay', default=None)
    ap.add_argument('--sub', default=None, help='run only this sub-check (debugging)')
    ap.add_argument('--workers', type=int, default=int(os.environ.get('VERIF_WORKERS', '16')))
    ap.add_argument('--scale', type=float, default=float(os.environ.get('VERIF_SCALE', '1')),
                    help='multiply example counts (debugging)')
    ap.add_argument('--no-evidence', action='store_true')
    ap.add_argument('--fail-fast', action='store_true', help='stop at the first violating shard (sensitivity runs only)')
    args = ap.parse_args(argv)

    if os.environ.get('PYTHONHASHSEED') != '0':
        os.environ['PYTHONHASHSEED'] = '0'
        os.execv(sys.executable, [sys.executable] + sys.argv)

    t0 = time.time()
    setup_process_env()
    prop = args.prop.upper()
    try:
        seed = int(os.environ.get('VERIF_SEED', '1'))
    except ValueError:
        seed = 1
    cands = [f[:-3] for f in sorted(os.listdir(os.path.join(VERIF_DIR, 'checks')))
             if f.lower().startswith(prop.lower() + '_') and f.endswith('.py')]
    if not cands:
        print('no check module for', prop)
        return 2
    module_name = 'checks.' + cands[0]

    import concurrent.futures as cf
    import multiprocessing as mp
    ctx = mp.get_context('spawn')

    # main process only needs the sub-check table; import the module in a child to keep jax out
    with cf.ProcessPoolExecutor(max_workers=1, mp_context=ctx) as ex:
        table = ex.submit(_describe, module_name).result()
    if 'harness_error' in table:
        print('HARNESS-ERROR', table['harness_error'])
        return 2

    known = load_known(prop)

    # ---- single replay -------------------------------------------------------------------
    if args.replay:
        with cf.ProcessPoolExecutor(max_workers=1, mp_context=ctx) as ex:
            rr = ex.submit(run_replays, module_name, [os.path.abspath(args.replay)]).result()
        if isinstance(rr, dict):
            print('HARNESS-ERROR', rr['harness_error'])
            return 2
        r = rr[0]
        if r.get('error'):
            print('HARNESS-ERROR', r['error'])
            return 2
        if r['failure']:
            print('replay fails:', json.dumps(r['failure'])[:2000])
            print('VIOLATION property=%s replay=%s' % (prop, os.path.abspath(args.replay)))
            return 1
        if r['known']:
            e = [k for k in known if k['id'] == r['known']][0]
            print('KNOWN-FINDING: property=%s %s: %s' % (prop, e['id'], e['what']))
            return 0
        print('replay holds')
        return 0

    # ---- replay tier ---------------------------------------------------------------------
    rdir = os.path.join(VERIF_DIR, 'replays', prop)
    rpaths = []
    if os.path.isdir(rdir):
        rpaths = sorted(os.path.join(rdir, f) for f in os.listdir(rdir) if f.endswith('.json'))

    tasks = []
    for s in table['subs']:
        if args.sub and s['name'] != args.sub:
            continue
        ns = s['shards_quick'] if args.tier == 'quick' else s['shards_thorough']
        for k in range(ns):
            tasks.append((s['name'], k, seed * 100000 + s['index'] * 1000 + k))

    results = []
    replay_results = []
    harness_errors = []
    kwargs = {'max_tasks_per_child': 1} if sys.version_info >= (3, 11) else {}
    if args.fail_fast:
        os.environ['VERIF_NO_SHRINK'] = '1'          # sensitivity runs: the unshrunk counterexample is enough
    ex = cf.ProcessPoolExecutor(max_workers=args.workers, mp_context=ctx, **kwargs)
    if True:
        futs = []
        if rpaths and not args.sub:
            futs.append(('replay', ex.submit(run_replays, module_name, rpaths)))
        for (name, k, sd) in tasks:
            if args.scale != 1:
                futs.append(('shard', ex.submit(_run_shard_scaled, module_name, name, k,
                                                args.tier, sd, args.scale)))
            else:
                futs.append(('shard', ex.submit(run_shard, module_name, name, k, args.tier, sd)))
        order = futs
        if args.fail_fast:
            kinds = {fu: kind for kind, fu in futs}
            order = ((kinds[fu], fu) for fu in cf.as_completed(list(kinds)))
        stop = False
        for kind, fu in order:
            if stop:
                break
            try:
                r = fu.result()
            except BaseException as e:   # noqa: worker died
                harness_errors.append('worker failed: %r' % (e,))
                continue
            if kind == 'replay':
                if isinstance(r, dict):
                    harness_errors.append(r['harness_error'])
                else:
                    replay_results = r
            else:
                results.append(r)
                if r['harness_error']:
                    harness_errors.append('[%s/%d] %s' % (r['sub'], r['shard'], r['harness_error']))
                if args.fail_fast and r['violation']:
                    stop = True
            if args.fail_fast and kind == 'replay' and not isinstance(r, dict) and any(x.get('failure') for x in r):
                stop = True
        if stop:
            # sensitivity runs only: report the first violation now; the remaining workers are abandoned and the process
            # leaves through os._exit at the end of main (joining a pool whose workers were terminated can block)
            for fu in [f for _, f in futs]:
                fu.cancel()
            procs = list(getattr(ex, '_processes', {}).values())
            ex.shutdown(wait=False, cancel_futures=True)
            for pr in procs:
                try:
                    pr.kill()
                except Exception:      # noqa
                    pass
            _FAST_EXIT[0] = True
    if not _FAST_EXIT[0]:
        ex.shutdown(wait=True)

    # ---- aggregate -----------------------------------------------------------------------
    violations = []
    known_hit = collections.Counter()
    known_examples = {}
    evaluations = 0
    nt = set()
    classes = collections.Counter()
    incon = collections.Counter()
    per_sub = {}
    samples = []
    budget_hit = []
    for r in replay_results:
        if r.get('error'):
            harness_errors.append('replay %s: %s' % (r['path'], r['error']))
            continue
        evaluations += r['n_eval']
        if r['nontrivial']:
            nt.add(r['hash'])
        if r['failure']:
            violations.append({'replay': r['path'], 'sub': r['sub'], 'failure': r['failure']})
        elif r['known']:
            known_hit[r['known']] += 1
            known_examples.setdefault(r['known'], {'replay': os.path.relpath(r['path'], VERIF_DIR),
                                                   'failure': r.get('known_failure')})
    for r in results:
        evaluations += r['evaluations']
        nt.update(r['nt_hashes'])
        ps = per_sub.setdefault(r['sub'], {'cases': 0, 'evaluations': 0, 'nontrivial': set(),
                                           'classes': collections.Counter(), 'wall_s': 0.0,
                                           'inconclusive': collections.Counter()})
        ps['cases'] += r['cases']
        ps['evaluations'] += r['evaluations']
        ps['nontrivial'].update(r['nt_hashes'])
        ps['classes'].update(r['classes'])
        ps['inconclusive'].update(r['inconclusive'])
        ps['wall_s'] = max(ps['wall_s'], r['wall_s'])
        classes.update({'%s:%s' % (r['sub'], k): v for k, v in r['classes'].items()})
        incon.update({'%s:%s' % (r['sub'], k): v for k, v in r['inconclusive'].items()})
        for k, v in r['excluded_known'].items():
            known_hit[k] += v
        for k, v in r.get('known_samples', {}).items():
            known_examples.setdefault(k, v)
        if r['budget_hit']:
            budget_hit.append('%s/%d' % (r['sub'], r['shard']))
        if len(samples) < 10:
            for s in r['samples']:
                if sum(1 for x in samples if x['sub'] == s['sub']) < 2 and len(samples) < 10:
                    samples.append(s)
        if r['violation']:
            path = write_replay(prop, r['violation'])
            violations.append({'replay': path, 'sub': r['sub'], 'failure': r['violation']['failure']})

    # required classes (a vacuous run is a harness error, not a pass)
    missing = []
    if not args.sub and not harness_errors and args.scale >= 1:
        for s in table['subs']:
            for c in s['required']:
                if per_sub.get(s['name'], {}).get('classes', {}).get(c, 0) == 0:
                    missing.append('%s:%s' % (s['name'], c))

    wall = time.time() - t0
    status = 0
    for k in known:
        if k.get('status') == 'open' and known_hit.get(k['id'], 0) > 0:
            print('KNOWN-FINDING: property=%s %s: %s (matched %d generated/replayed cases)'
                  % (prop, k['id'], k['what'], known_hit[k['id']]))
    # de-duplicate violations by (sub, clause)
    seen = set()
    for v in violations:
        key = (v['sub'], v['failure']['clause'])
        if key in seen:
            continue
        seen.add(key)
        print('violation detail: sub=%s clause=%s %s' % (v['sub'], v['failure']['clause'],
                                                        v['failure']['detail'][:500]))
        print('VIOLATION property=%s replay=%s' % (prop, v['replay']))
        status = 1
    if harness_errors:
        for h in harness_errors:
            print('HARNESS-ERROR', h)
        if status == 0:
            status = 2
    if missing and status == 0:
        starved = set(b.split('/')[0] for b in budget_hit)
        hard = [m for m in missing if m.split(':')[0] not in starved]
        soft = [m for m in missing if m.split(':')[0] in starved]
        if soft:
            # the sub-check ran out of its wall budget (loaded machine): fewer cases than configured is an inconclusive
            # remainder, not a generator fault
            print('NOTE classes not reached before the wall budget was hit:', ', '.join(soft))
        if hard:
            print('HARNESS-ERROR required classes never generated:', ', '.join(hard))
            status = 2

    if not samples:
        for r in results:
            samples.extend(r['samples'][:1])
    cov = {
        'evaluations': int(evaluations),
        'distinct_nontrivial': len(nt),
        'rule': table['rule'],
        'samples': samples[:10] if samples else [{'note': 'no non-trivial sample recorded'}],
        'cases_generated': int(sum(r['cases'] for r in results)),
        'replay_files_run': len(replay_results),
        'per_subcheck': {k: {'cases': v['cases'], 'evaluations': v['evaluations'],
                             'distinct_nontrivial': len(v['nontrivial']),
                             'classes': dict(sorted(v['classes'].items())),
                             'inconclusive': dict(v['inconclusive']),
                             'max_shard_wall_s': round(v['wall_s'], 1)}
                         for k, v in per_sub.items()},
        'excluded_known': {k: {'count': int(v), 'example': known_examples.get(k)}
                           for k, v in known_hit.items()},
        'inconclusive': dict(incon),
        'budget_hit_shards': budget_hit,
        'shards': len(results),
        'violations_found': [{'sub': v['sub'], 'clause': v['failure']['clause'],
                              'replay': os.path.relpath(v['replay'], VERIF_DIR)}
                             for v in violations],
        'harness_errors': harness_errors[:5],
        'repo_under_test': REPO,
    }
    ev = {'property_id': prop, 'tier': args.tier, 'seed': seed, 'level': LEVEL, 'coverage': cov,
          'assumptions': table['assumptions'], 'wall_s': round(wall, 2),
          'violations': len(seen)}
    if not args.no_evidence and not args.sub:
        os.makedirs(os.path.join(VERIF_DIR, 'evidence'), exist_ok=True)
        with open(os.path.join(VERIF_DIR, 'evidence', prop + '.json'), 'w') as f:
            json.dump(ev, f, indent=1, sort_keys=True)
    print('%s tier=%s seed=%d: %d evaluations in %d cases, %d distinct non-trivial, %d shards, '
          '%.0fs; known=%s inconclusive=%d%s -> exit %d'
          % (prop, args.tier, seed, evaluations, cov['cases_generated'], len(nt), len(results),
             wall, dict(known_hit), sum(incon.values()),
             ' BUDGET-HIT ' + ','.join(budget_hit) if budget_hit else '', status))
    if args.sub or os.environ.get('VERIF_VERBOSE'):
        for k, v in cov['per_subcheck'].items():
            print('  ', k, json.dumps(v))
    if _FAST_EXIT[0]:
        sys.stdout.flush()
        sys.stderr.flush()
        os._exit(status)
    return status


def _run_shard_scaled(module_name, sub_name, shard, tier, seed, scale):
    setup_process_env()
    module = importlib.import_module(module_name)
    for s in module.SUBCHECKS:
        s.quick = max(1, int(s.quick * scale))
        s.thorough = max(1, int(s.thorough * scale))
    return run_shard(module_name, sub_name, shard, tier, seed)


def _describe(module_name):
    try:
        setup_process_env()
        m = importlib.import_module(module_name)
        return {'rule': m.RULE, 'assumptions': list(getattr(m, 'ASSUMPTIONS', [])),
                'subs': [{'name': s.name, 'index': i, 'shards_quick': s.shards_quick,
                          'shards_thorough': s.shards_thorough, 'required': list(s.required)}
                         for i, s in enumerate(m.SUBCHECKS)]}
    except BaseException as e:   # noqa
        return {'harness_error': '%s: %s\n%s' % (type(e).__name__, e, traceback.format_exc()[-3000:])}
