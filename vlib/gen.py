"""Shared Hypothesis generators (DESIGN.md section 3).

Every strategy returns plain Python data (floats, ints, lists, dicts) so a case is
JSON-serialisable and a replay never regenerates anything.
"""
import math

import numpy as onp
from hypothesis import strategies as st

EPS = 2.220446049250313e-16


# ----------------------------------------------------------------------------
# scalars
# ----------------------------------------------------------------------------


def _flush(v):
    # XLA on CPU flushes subnormal numbers to zero, and products of tiny normal numbers become subnormal; gen.floats draws
    # shape parameters (angles, coefficients, fractions of O(1)), for which a magnitude below 1e-100 would put a dynamic range
    # beyond 1e100 inside one tensor (same policy as snap below).  Hypothesis likes to propose 5e-324, 2.2e-309, 3.6e-136, ...
    # Scales over many decades are drawn with logfloat, which is not affected.
    return 0.0 if abs(v) < 1e-100 else v


def floats(lo=None, hi=None, **kw):
    """st.floats without subnormal / near-underflow magnitudes."""
    return st.floats(lo, hi, **kw).map(_flush)

def logfloat(lo_exp, hi_exp, signed=False):
    """mantissa in [1,10) times 10**exponent, exponent uniform in [lo_exp, hi_exp)."""
    s = st.builds(lambda m, e: float(m * 10.0 ** e), floats(1.0, 9.999), st.integers(lo_exp, hi_exp - 1))
    if signed:
        return st.builds(lambda v, sg: v if sg else -v, s, st.booleans())
    return s


def loguniform(lo_exp, hi_exp):
    return floats(lo_exp, hi_exp).map(lambda e: float(10.0 ** e))


def ulps(v, k):
    """v moved by k units in the last place."""
    x = float(v)
    for _ in range(abs(k)):
        x = float(onp.nextafter(x, onp.inf if k > 0 else -onp.inf))
    return x


def around(v):
    """Strategy landing on and around a branch switch at v (v != 0 assumed scale)."""
    v = float(v)
    scale = abs(v) if v != 0 else 1.0
    return st.one_of(
        st.just(v),
        st.integers(-4, 4).map(lambda k: ulps(v, k)),
        st.builds(lambda e, sg: v + sg * scale * 10.0 ** e, st.integers(-15, -3), st.sampled_from([-1.0, 1.0])),
    )


# ----------------------------------------------------------------------------
# rotations
# ----------------------------------------------------------------------------

SPECIAL_ANGLES = [0.0, math.pi / 2, math.pi, -math.pi / 2, math.pi / 4, ulps(0.0, 3), math.pi / 3]


def angle():
    return st.one_of(floats(-math.pi, math.pi), st.sampled_from(SPECIAL_ANGLES))


def rot2(theta):
    c, s = math.cos(theta), math.sin(theta)
    return onp.array([[c, -s], [s, c]])


def rotz(theta):
    R = onp.eye(3)
    R[:2, :2] = rot2(theta)
    return R


def quat_to_rot(q):
    q = onp.asarray(q, dtype=float)
    n = onp.linalg.norm(q)
    if n < 1e-8:
        return onp.eye(3)
    w, x, y, z = q / n
    return onp.array([[1 - 2 * (y * y + z * z), 2 * (x * y - z * w), 2 * (x * z + y * w)],
                      [2 * (x * y + z * w), 1 - 2 * (x * x + z * z), 2 * (y * z - x * w)],
                      [2 * (x * z - y * w), 2 * (y * z + x * w), 1 - 2 * (x * x + y * y)]])


@st.composite
def rotation3(draw, kinds=('generic', 'inplane', 'axis')):
    """Proper 3x3 rotation as nested list, with its kind."""
    kind = draw(st.sampled_from(kinds))
    if kind == 'generic':
        q = draw(st.lists(floats(-1, 1), min_size=4, max_size=4))
        R = quat_to_rot(q)
    elif kind == 'inplane':
        R = rotz(draw(angle()))
    else:
        perm = draw(st.permutations([0, 1, 2]))
        R = onp.eye(3)[:, perm]
        if onp.linalg.det(R) < 0:
            R[:, 0] *= -1
    return {'kind': kind, 'R': R.tolist()}


# ----------------------------------------------------------------------------
# symmetric 3x3 tensors
# ----------------------------------------------------------------------------

SPECTRUM_CLASSES = ('distinct', 'near_double', 'double_low', 'double_high', 'triple',
                    'rank2', 'rank1', 'traceless', 'near_triple')


@st.composite
def spectrum(draw, classes=SPECTRUM_CLASSES, positive=False, mag_exp=(-3, 3)):
    cls = draw(st.sampled_from(classes))
    mag = draw(logfloat(*mag_exp))
    a, b, c = sorted(draw(st.lists(floats(-1, 1), min_size=3, max_size=3)))
    if positive:
        a, b, c = sorted(abs(v) + 0.05 for v in (a, b, c))
    gap_exp = None
    if cls == 'distinct':
        lam = [a, b, c]
    elif cls == 'near_double':
        gap_exp = draw(st.integers(-17, -1))
        hi = draw(st.booleans())
        g = 10.0 ** gap_exp * max(abs(a), abs(c), 0.1)
        lam = [a, c - g, c] if hi else [a, a + g, c]
    elif cls == 'double_low':
        lam = [a, a, c]
    elif cls == 'double_high':
        lam = [a, c, c]
    elif cls == 'triple':
        lam = [c, c, c]
    elif cls == 'near_triple':
        gap_exp = draw(st.integers(-17, -1))
        g = 10.0 ** gap_exp * max(abs(c), 0.1)
        lam = [c - 2 * g, c - g, c]
    elif cls == 'rank2':
        lam = [0.0, b, c] if not positive else [a, b, c]
    elif cls == 'rank1':
        lam = [0.0, 0.0, c] if not positive else [a, a, c]
    else:   # traceless
        lam = [a, b, -(a + b)]
    lam = sorted(float(v) * mag for v in lam)
    return {'cls': cls, 'lam': lam, 'mag': mag, 'gap_exp': gap_exp}


def snap(A, rel=1e-100):
    """Entries below rel*max|A| are set to zero: a dynamic range beyond 1e100 inside one tensor squares to
    under/overflow in any floating-point routine and is outside the input domain of every check."""
    A = onp.array(A, dtype=float)
    m = onp.abs(A).max()
    if m > 0:
        A[onp.abs(A) < rel * m] = 0.0
    return A


@st.composite
def sym33(draw, classes=SPECTRUM_CLASSES, positive=False, mag_exp=(-3, 3),
          orient=('generic', 'inplane', 'axis')):
    sp = draw(spectrum(classes, positive, mag_exp))
    rot = draw(rotation3(orient))
    Q = onp.array(rot['R'])
    lam = onp.array(sp['lam'])
    if draw(st.booleans()):
        lam = lam[list(draw(st.permutations([0, 1, 2])))]   # which axis carries which eigenvalue
    A = (Q * lam) @ Q.T
    A = snap(0.5 * (A + A.T))
    return {'cls': sp['cls'], 'orient': rot['kind'], 'lam': sp['lam'], 'gap_exp': sp['gap_exp'],
            'A': A.tolist()}


@st.composite
def sym33_direction(draw):
    v = draw(st.lists(floats(-1, 1), min_size=6, max_size=6))
    E = onp.array([[v[0], v[3], v[4]], [v[3], v[1], v[5]], [v[4], v[5], v[2]]])
    n = onp.linalg.norm(E)
    if n < 1e-3:
        E = onp.eye(3) + E
    return E.tolist()


# ----------------------------------------------------------------------------
# deformation gradients (displacement gradient H = F - I)
# ----------------------------------------------------------------------------

F_CLASSES = ('uniaxial_inplane', 'equibiaxial', 'dilation', 'simple_shear', 'generic',
             'generic_planestrain', 'identity')


@st.composite
def defgrad(draw, classes=F_CLASSES, strain_exp=(-8, 0), max_strain=0.6, rotate=True):
    """F = R U with det F > 0.  Returns dict with F, U, R, cls, strain magnitude."""
    cls = draw(st.sampled_from(classes))
    e = min(draw(logfloat(*strain_exp)), max_strain)
    sgn = draw(st.sampled_from([-1.0, 1.0]))
    if cls == 'identity':
        U = onp.eye(3)
    elif cls == 'uniaxial_inplane':
        Q = rotz(draw(angle()))
        U = Q @ onp.diag([1.0 + sgn * e, 1.0, 1.0]) @ Q.T
    elif cls == 'equibiaxial':
        Q = rotz(draw(angle()))
        U = Q @ onp.diag([1.0 + sgn * e, 1.0 + sgn * e, 1.0]) @ Q.T
    elif cls == 'dilation':
        U = (1.0 + sgn * e) * onp.eye(3)
    elif cls == 'simple_shear':
        Fs = onp.eye(3)
        Fs[0, 1] = sgn * e
        Q = rotz(draw(angle()))
        Fs = Q @ Fs @ Q.T
        # polar factor computed below; keep F itself
        U = None
    elif cls == 'generic_planestrain':
        v = draw(st.lists(floats(-1, 1), min_size=3, max_size=3))
        E = onp.array([[v[0], v[2], 0], [v[2], v[1], 0], [0, 0, 0.0]])
        U = onp.eye(3) + e * E / max(1.0, onp.abs(E).max())
    else:
        E = onp.array(draw(sym33_direction()))
        U = onp.eye(3) + e * E / max(1.0, onp.linalg.norm(E, 2))
    if U is None:
        F = Fs
        U = None
    else:
        U = 0.5 * (U + U.T)
        F = U
    Rk = 'none'
    if rotate and cls != 'simple_shear':
        rot = draw(rotation3(('generic', 'inplane') if cls not in ('generic_planestrain',)
                             else ('inplane',)))
        Rk = rot['kind']
        F = onp.array(rot['R']) @ F
    return {'cls': cls, 'strain': e, 'F': snap(onp.asarray(F) - onp.eye(3)).tolist() if False else (snap(onp.asarray(F) - onp.eye(3)) + onp.eye(3)).tolist(), 'rot': Rk}


# ----------------------------------------------------------------------------
# triangle meshes (degree 1); description dicts + builder
# ----------------------------------------------------------------------------

def _tri_areas(coords, conns):
    a = coords[conns[:, 0]]
    b = coords[conns[:, 1]]
    c = coords[conns[:, 2]]
    return 0.5 * ((b[:, 0] - a[:, 0]) * (c[:, 1] - a[:, 1]) - (b[:, 1] - a[:, 1]) * (c[:, 0] - a[:, 0]))


def _lattice(nx, ny, diag):
    """(nx x ny) cells on the unit lattice; diag[k] chooses the split of cell k."""
    coords = onp.array([[i, j] for j in range(ny + 1) for i in range(nx + 1)], dtype=float)
    conns = []
    k = 0
    for j in range(ny):
        for i in range(nx):
            n00 = i + (nx + 1) * j
            n10 = n00 + 1
            n01 = n00 + nx + 1
            n11 = n01 + 1
            if diag[k]:
                conns += [[n00, n10, n11], [n00, n11, n01]]
            else:
                conns += [[n00, n10, n01], [n10, n11, n01]]
            k += 1
    return coords, onp.array(conns, dtype=int)


@st.composite
def lattice_mesh(draw, nx=(1, 4), ny=(1, 4), fixed=None, affine=True, permute=True, jitter=True):
    """Fixed-shape unstructured mesh: lattice, drawn diagonals, jitter, grading, affine map,
    cyclic rotation of each element's vertex triple, element and node permutation."""
    if fixed is not None:
        NX, NY = fixed
    else:
        NX = draw(st.integers(*nx))
        NY = draw(st.integers(*ny))
    ncell = NX * NY
    diag = draw(st.lists(st.booleans(), min_size=ncell, max_size=ncell))
    coords, conns = _lattice(NX, NY, diag)
    nn = coords.shape[0]
    if jitter and draw(st.booleans()):
        J = onp.array(draw(st.lists(floats(-0.3, 0.3), min_size=2 * nn, max_size=2 * nn))).reshape(nn, 2)
        # only interior nodes move freely; boundary nodes slide along the boundary
        onb_x = (coords[:, 0] == 0) | (coords[:, 0] == NX)
        onb_y = (coords[:, 1] == 0) | (coords[:, 1] == NY)
        J[onb_x, 0] = 0.0
        J[onb_y, 1] = 0.0
        scale = 1.0
        for _ in range(8):
            if _tri_areas(coords + scale * J, conns).min() > 0.05:
                break
            scale *= 0.5
        else:
            scale = 0.0
        coords = coords + scale * J
    # monotone grading per axis
    gx = draw(floats(0.5, 2.5))
    gy = draw(floats(0.5, 2.5))
    coords = onp.column_stack(((coords[:, 0] / NX) ** gx, (coords[:, 1] / NY) ** gy))
    if affine:
        sx = draw(loguniform(-1, 1))
        ratio = draw(floats(1.0, 50.0)) if draw(st.booleans()) else 1.0
        th = draw(angle())
        t = draw(st.lists(floats(-10, 10), min_size=2, max_size=2))
        A = rot2(th) @ onp.diag([sx, sx * ratio])
        coords = coords @ A.T + onp.array(t)
    if _tri_areas(coords, conns).min() <= 0:     # cannot happen by construction; keep sound
        coords, conns = _lattice(NX, NY, diag)
    ne = conns.shape[0]
    if permute:
        rots = draw(st.lists(st.integers(0, 2), min_size=ne, max_size=ne))
        conns = onp.array([onp.roll(c, r) for c, r in zip(conns, rots)])
        eperm = draw(st.permutations(list(range(ne))))
        conns = conns[list(eperm)]
        nperm = onp.array(draw(st.permutations(list(range(nn)))))   # old -> new
        newcoords = onp.empty_like(coords)
        newcoords[nperm] = coords
        coords = newcoords
        conns = nperm[conns]
    return {'kind': 'lattice', 'nx': NX, 'ny': NY, 'coords': coords.tolist(), 'conns': conns.tolist()}


@st.composite
def delaunay_mesh(draw, n=(2, 5), hole=True):
    from scipy.spatial import Delaunay
    NX = draw(st.integers(*n))
    NY = draw(st.integers(*n))
    pts = onp.array([[i, j] for j in range(NY + 1) for i in range(NX + 1)], dtype=float)
    nn = pts.shape[0]
    J = onp.array(draw(st.lists(floats(-0.35, 0.35), min_size=2 * nn, max_size=2 * nn))).reshape(nn, 2)
    pts = pts + J
    th = draw(angle())
    sx = draw(loguniform(-1, 1))
    ratio = draw(floats(1.0, 20.0)) if draw(st.booleans()) else 1.0
    A = rot2(th) @ onp.diag([sx, sx * ratio])
    tri = Delaunay(pts, qhull_options='QJ Pp')
    conns = onp.array(tri.simplices, dtype=int)
    ar = _tri_areas(pts, conns)
    conns[ar < 0] = conns[ar < 0][:, [0, 2, 1]]
    ar = onp.abs(ar)
    keep = ar > 1e-3                      # drop slivers produced on the hull
    has_hole = False
    if hole and NX >= 3 and NY >= 3 and draw(st.booleans()):
        cx = draw(floats(1.0, NX - 1.0))
        cy = draw(floats(1.0, NY - 1.0))
        r = draw(floats(0.3, 0.9))
        cen = pts[conns].mean(axis=1)
        inhole = ((cen[:, 0] - cx) ** 2 + (cen[:, 1] - cy) ** 2) < r * r
        if inhole.any() and (keep & ~inhole).sum() >= 2:
            keep = keep & ~inhole
            has_hole = True
    conns = conns[keep]
    used = onp.unique(conns)
    remap = -onp.ones(nn, dtype=int)
    remap[used] = onp.arange(used.size)
    conns = remap[conns]
    pts = pts[used]
    ne = conns.shape[0]
    rots = draw(st.lists(st.integers(0, 2), min_size=ne, max_size=ne))
    conns = onp.array([onp.roll(c, r_) for c, r_ in zip(conns, rots)])
    t = draw(st.lists(floats(-10, 10), min_size=2, max_size=2))
    coords = pts @ A.T + onp.array(t)
    return {'kind': 'delaunay', 'hole': has_hole, 'coords': coords.tolist(), 'conns': conns.tolist()}


@st.composite
def structured_mesh(draw, n=(2, 6)):
    Nx = draw(st.integers(*n))
    Ny = draw(st.integers(*n))
    x0 = draw(floats(-5, 5))
    y0 = draw(floats(-5, 5))
    w = draw(loguniform(-2, 2))
    h = draw(loguniform(-2, 2))
    return {'kind': 'structured', 'Nx': Nx, 'Ny': Ny, 'xExtent': [x0, x0 + w], 'yExtent': [y0, y0 + h]}


def any_mesh(small=False):
    if small:
        return st.one_of(lattice_mesh(nx=(1, 3), ny=(1, 3)), delaunay_mesh(n=(2, 3)),
                         structured_mesh(n=(2, 4)))
    return st.one_of(lattice_mesh(), delaunay_mesh(), structured_mesh())


def build_mesh(desc, order=1, bubble=False, nodeSets=None, sideSets=None, blocks=None, **kw):
    """Construct an optimism Mesh from a description dict."""
    import jax.numpy as np
    from optimism import Mesh
    if desc['kind'] == 'structured':
        m = Mesh.construct_structured_mesh(desc['Nx'], desc['Ny'], desc['xExtent'], desc['yExtent'])
        if nodeSets is not None or sideSets is not None or blocks is not None:
            m = Mesh.construct_mesh_from_basic_data(
                m.coords, m.conns, blocks if blocks is not None else m.blocks, nodeSets, sideSets)
    else:
        coords = np.array(onp.array(desc['coords'], dtype=float))
        conns = np.array(onp.array(desc['conns'], dtype=int))
        if blocks is None:
            blocks = {'block_0': np.arange(conns.shape[0])}
        m = Mesh.construct_mesh_from_basic_data(coords, conns, blocks, nodeSets, sideSets)
    if order > 1:
        m = Mesh.create_higher_order_mesh_from_simplex_mesh(m, order, useBubbleElement=bubble, **kw)
    return m


def mesh_arrays(desc):
    """(coords, conns) numpy arrays of the degree-1 mesh described, without importing optimism."""
    if desc['kind'] == 'structured':
        Nx, Ny = desc['Nx'], desc['Ny']
        xs = onp.linspace(desc['xExtent'][0], desc['xExtent'][1], Nx)
        ys = onp.linspace(desc['yExtent'][0], desc['yExtent'][1], Ny)
        coords = onp.array([[xs[i], ys[j]] for j in range(Ny) for i in range(Nx)])
        conns = []
        for ex in range(Nx - 1):
            for ey in range(Ny - 1):
                conns.append([ex + Nx * ey, ex + 1 + Nx * ey, ex + 1 + Nx * (ey + 1)])
                conns.append([ex + Nx * ey, ex + 1 + Nx * (ey + 1), ex + Nx * (ey + 1)])
        return coords, onp.array(conns, dtype=int)
    return onp.array(desc['coords'], dtype=float), onp.array(desc['conns'], dtype=int)


def mesh_is_interesting(desc):
    """>= 2 distinct element shapes and a non-axis-aligned edge."""
    coords, conns = mesh_arrays(desc)
    ar = onp.round(_tri_areas(coords, conns), 10)
    e = coords[conns[:, 1]] - coords[conns[:, 0]]
    skew = onp.any((onp.abs(e[:, 0]) > 1e-9) & (onp.abs(e[:, 1]) > 1e-9))
    return bool(len(set(ar.tolist())) >= 2 and skew)
