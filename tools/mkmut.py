#!/usr/bin/env python3
"""mkmut.py <PROP> <name> <repo-relative file> <old> <new> : write mutants/<PROP>/<name>.patch (repo left clean)."""
import os
import subprocess
import sys

prop, name, rel, old, new = sys.argv[1:6]
verif = os.path.dirname(os.path.dirname(os.path.abspath(__file__)))
path = os.path.join('/repo', rel)
src = open(path).read()
if src.count(old) != 1:
    print('pattern occurs %d times in %s' % (src.count(old), rel))
    sys.exit(1)
try:
    open(path, 'w').write(src.replace(old, new))
    diff = subprocess.run(['git', '-C', '/repo', 'diff', '--', rel], capture_output=True, text=True).stdout
finally:
    open(path, 'w').write(src)
d = os.path.join(verif, 'mutants', prop)
os.makedirs(d, exist_ok=True)
open(os.path.join(d, name + '.patch'), 'w').write(diff)
print('wrote', os.path.join(d, name + '.patch'))
