#!/usr/bin/env python3
"""Regenerate MANIFEST.json from the table below (kept in one place so it is always valid)."""
import json
import os

HERE = os.path.dirname(os.path.dirname(os.path.abspath(__file__)))

# property -> (technique, level text, level note, design ref)
CHECKS = {}


def add(pid, technique, text, note, ref=None):
    CHECKS[pid] = (technique, text, note, ref or ('section 5, ' + pid))


NOT_APPLICABLE = {}

exec(open(os.path.join(HERE, 'tools', 'manifest_table.py')).read())

props = [json.loads(l)['id'] for l in open(os.path.join(HERE, 'properties.jsonl'))]
checks = []
for pid in props:
    if pid not in CHECKS:
        continue
    tech, text, note, ref = CHECKS[pid]
    checks.append({
        'property_id': pid,
        'quick_cmd': 'cd /verif && /venv/bin/python run_check.py %s --tier quick' % pid,
        'thorough_cmd': 'cd /verif && /venv/bin/python run_check.py %s --tier thorough' % pid,
        'evidence_file': '/verif/evidence/%s.json' % pid,
        'replay_cmd_template': 'cd /verif && /venv/bin/python run_check.py %s --replay {path}' % pid,
        'engine': 'hypothesis-runner',
        'level_claimed': {'category': 'exploration', 'text': text, 'design_ref': ref},
        'level_note': note,
        'technique': tech,
    })
na = [{'property_id': p, 'reason': NOT_APPLICABLE.get(p, 'check not built yet (work in progress); '
       'property-based testing applies and a check is planned, see DESIGN.md section 5')}
      for p in props if p not in CHECKS]
manifest = {
    'version': 1,
    'setup_cmd': 'cd /verif && sh tools/setup.sh',
    'hooks': {'guard': 'OPTIMISM_VERIF', 'enable': 'no hooks are needed: every check observes public API, '
              'callbacks, return values, files written and captured stdout only',
              'baseline_off_cmd': 'cd /repo && /venv/bin/python -m pytest -ra -q -p no:cacheprovider '
              '--timeout=900 --continue-on-collection-errors',
              'source_commits': [], 'add_only': True},
    'engines': [{'name': 'hypothesis-runner', 'path': '/verif/run_check.py',
                 'serves_properties': [c['property_id'] for c in checks],
                 'kind_free_text': 'Hypothesis 6.168 property-based search (seeded from VERIF_SEED, sharded over '
                 '16 processes), explicit oracle per sub-check, shrinking to a JSON replay file, committed replay tier'}],
    'checks': checks,
    'not_applicable': na,
    'notes': 'Exit 0 held / 1 VIOLATION / 2 harness error. known_findings.json lists genuine defects recorded '
             'rather than repaired (KNOWN-FINDING lines) and repaired ones (fixed: entries).',
}
with open(os.path.join(HERE, 'MANIFEST.json'), 'w') as f:
    json.dump(manifest, f, indent=1)
print('wrote MANIFEST.json with %d checks, %d not_applicable' % (len(checks), len(na)))
