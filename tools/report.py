#!/usr/bin/env python3
"""report.py: regenerate the generated part of DESIGN.md (between the markers <!-- BEGIN GENERATED --> and
<!-- END GENERATED -->) from known_findings.json, sensitivity/RESULTS.json, seeded/*/meta.json and evidence/*.json."""
import glob
import json
import os
import re

verif = os.path.dirname(os.path.dirname(os.path.abspath(__file__)))
L = []
w = L.append


def cell(s, n=10 ** 6):
    return str(s).replace('|', '\\|').replace('\n', ' ')[:n]


known = json.load(open(os.path.join(verif, 'known_findings.json')))['findings']
w('### G1. Genuine defects found (root causes), with disposition\n')
w('| id | properties | status | commit | where | what failed | replay |')
w('|---|---|---|---|---|---|---|')
for k in sorted(known, key=lambda e: int(re.sub(r'\D', '', e['id']))):
    w('| %s | %s | %s | %s | `%s` | %s | %s |' % (k['id'], ', '.join(k['properties']), k['status'], k.get('commit') or '–', cell(k.get('where', '')),
                                                  cell(k['what']), ('`%s`' % k['replay']) if k.get('replay') else '–'))
w('')

resf = os.path.join(verif, 'sensitivity', 'RESULTS.json')
res = json.load(open(resf)) if os.path.exists(resf) else {}
for kind, title in (('mutant', 'G2. Own mutants (one-line breakages written while building each check)'),
                    ('fix', 'G3. Defects re-introduced (each `fix:` commit applied in reverse)')):
    rows = sorted((k, v) for k, v in res.items() if v['kind'] == kind)
    w('### %s\n' % title)
    w('%d patches, %d killed by the quick tier at VERIF_SEED=1.\n' % (len(rows), sum(1 for _, v in rows if v['verdict'] == 'KILLED')))
    w('| property | patch | verdict | first violated clause (quick tier) | s |')
    w('|---|---|---|---|---|')
    for k, v in rows:
        w('| %s | `%s` | %s | %s | %s |' % (v['property'], os.path.basename(k), v['verdict'], cell(v.get('first_violation') or '', 160), v.get('wall_s', '')))
    w('')

w('### G4. Seeded changes written by independent sub-agents\n')
rows = []
for d in sorted(glob.glob(os.path.join(verif, 'seeded', 'C*'))):
    m = json.load(open(os.path.join(d, 'meta.json')))
    key = os.path.relpath(os.path.join(d, 'patch.diff'), verif)
    r = res.get(key, {})
    rows.append((os.path.basename(d), m, r))
w('%d changes; each was confirmed (demo passes on the clean tree, fails with the patch; baseline tests touching the changed '
  'modules still pass).  "final" is the verdict of the quick tier of the checks as committed (sensitivity/RESULTS.json); '
  '"history" lists the verdicts obtained while the checks were being strengthened.\n' % len(rows))
w('| seed | files | change | needs to manifest | final | first violated clause | history |')
w('|---|---|---|---|---|---|---|')
for name, m, r in rows:
    hist = ' → '.join(x['verdict'] for x in m.get('check_runs', []))
    w('| %s | %s | %s | %s | %s | %s | %s |' % (name, ', '.join(os.path.basename(f) for f in m.get('files_changed', [])), cell(m.get('change', '')),
                                               cell(m.get('needs_to_manifest', '')), r.get('verdict', '(not re-run)'),
                                               cell(r.get('first_violation') or '', 140), hist))
w('')

w('### G0. Checks as built: sub-checks, oracle / non-triviality rule (from the evidence files)\n')
for f in sorted(glob.glob(os.path.join(verif, 'evidence', 'C*.json'))):
    e = json.load(open(f))
    c = e.get('coverage', {})
    subs = c.get('per_subcheck', {})
    w('* **%s** – sub-checks: %s.  ' % (e.get('property_id'), ', '.join('`%s` (%s cases)' % (k, v.get('cases')) for k, v in subs.items())))
    w('  Rule: %s' % cell(c.get('rule', ''), 1500))
    if e.get('assumptions'):
        w('  Assumptions: %s' % cell('; '.join(e['assumptions']) if isinstance(e['assumptions'], list) else e['assumptions'], 600))
w('')

w('### G5. Measured cost and coverage of the quick tier (evidence files as committed, VERIF_SEED=1, 16 workers)\n')
w('| property | evaluations | distinct non-trivial | wall s | known findings hit | inconclusive |')
w('|---|---|---|---|---|---|')
for f in sorted(glob.glob(os.path.join(verif, 'evidence', 'C*.json'))):
    e = json.load(open(f))
    c = e.get('coverage', {})
    w('| %s | %s | %s | %s | %s | %s |' % (e.get('property_id'), c.get('evaluations'), c.get('distinct_nontrivial'), e.get('wall_s'),
                                          cell(c.get('excluded_known') or '–'), sum((c.get('inconclusive') or {}).values())))
w('')

path = os.path.join(verif, 'DESIGN.md')
s = open(path).read()
b, e = '<!-- BEGIN GENERATED -->', '<!-- END GENERATED -->'
assert b in s and e in s
s = s[:s.index(b) + len(b)] + '\n\n' + '\n'.join(L) + '\n' + s[s.index(e):]
open(path, 'w').write(s)
print('DESIGN.md generated section: %d lines' % len(L))
