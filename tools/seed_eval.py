#!/usr/bin/env python3
"""Confirm a sub-agent's seeded change and run the registered check against it.

usage: seed_eval.py <PROP> <m1|m2|...> [--src /tmp/wt/out/<PROP>] [--no-check] [--scale S] [--tier quick]
 1. fresh scratch worktree of /repo HEAD (outside /repo and /verif)
 2. demo on the clean tree must exit 0; with the patch applied it must exit non-zero
 3. existing tests that touch the changed modules must still pass (baseline names from /root/.vp/BASELINE.json)
 4. the registered check is run against the patched worktree (VERIF_REPO)
 5. result is stored in /verif/seeded/<PROP>-<mN>/ (patch.diff, demo.py, meta.json); worktree removed
"""
import argparse
import json
import os
import re
import shutil
import subprocess
import sys
import tempfile
import xml.etree.ElementTree as ET

ap = argparse.ArgumentParser()
ap.add_argument('prop')
ap.add_argument('name')
ap.add_argument('--src', default=None)
ap.add_argument('--no-check', action='store_true')
ap.add_argument('--scale', default=None)
ap.add_argument('--tier', default='quick')
ap.add_argument('--skip-tests', action='store_true')
a = ap.parse_args()
verif = os.path.dirname(os.path.dirname(os.path.abspath(__file__)))
src = a.src or '/tmp/wt/out/%s' % a.prop
dest = os.path.join(verif, 'seeded', '%s-%s' % (a.prop, a.name))
patch = os.path.join(src, a.name + '.patch') if os.path.exists(os.path.join(src, a.name + '.patch')) \
    else os.path.join(dest, 'patch.diff')
demo = os.path.join(src, a.name + '_demo.py') if os.path.exists(os.path.join(src, a.name + '_demo.py')) \
    else os.path.join(dest, 'demo.py')
meta = {'property': a.prop, 'name': a.name}
if os.path.exists(os.path.join(dest, 'meta.json')):
    meta = json.load(open(os.path.join(dest, 'meta.json')))

wt = tempfile.mkdtemp(prefix='seed_', dir='/tmp')
os.rmdir(wt)
subprocess.check_call(['git', '-C', '/repo', 'worktree', 'add', '--detach', '-q', wt, 'HEAD'])
try:
    env = dict(os.environ, PYTHONPATH='%s:/tmp/optshim' % wt, PYTHONHASHSEED='0', JAX_PLATFORMS='cpu')
    os.makedirs('/tmp/optshim', exist_ok=True)
    if not os.path.exists('/tmp/optshim/sksparse'):
        shutil.copytree(os.path.join(verif, 'shims', 'sksparse'), '/tmp/optshim/sksparse')

    # the authors were told to assert that their own worktree is the one imported; that path does not exist here
    txt = open(demo).read()
    txt2 = re.sub(r'(?m)^(\s*)assert [^\n]*__file__[^\n]*startswith\([^\n]*$', r'\1pass  # (author worktree path assertion removed by seed_eval)', txt)
    if txt2 != txt:
        demo = os.path.join(wt, '_seed_demo.py')
        open(demo, 'w').write(txt2)

    def run_demo():
        r = subprocess.run(['/venv/bin/python', demo], capture_output=True, text=True, env=env, cwd=wt, timeout=1800)
        return r.returncode, (r.stdout + r.stderr).strip().splitlines()[-3:]
    rc0, out0 = run_demo()
    r = subprocess.run(['git', '-C', wt, 'apply', patch], capture_output=True, text=True)
    if r.returncode != 0:
        print('PATCH-FAILED', r.stderr)
        sys.exit(3)
    rc1, out1 = run_demo()
    meta['demo_clean_exit'] = rc0
    meta['demo_patched_exit'] = rc1
    meta['demo_patched_output_tail'] = out1
    print('demo: clean exit %d, patched exit %d' % (rc0, rc1))
    ok = (rc0 == 0 and rc1 != 0)
    # existing tests touching the changed files
    changed = re.findall(r'^\+\+\+ b/(\S+)', open(patch).read(), re.M)
    meta['files_changed'] = changed
    if not a.skip_tests:
        mods = [os.path.splitext(os.path.basename(c))[0] for c in changed]
        tests = []
        for root, _, files in os.walk(os.path.join(wt, 'optimism')):
            for f in files:
                if f.startswith('test_') and f.endswith('.py'):
                    txt = open(os.path.join(root, f)).read()
                    if any(re.search(r'\b%s\b' % re.escape(m), txt) for m in mods):
                        tests.append(os.path.join(root, f))
        base = set(json.load(open('/root/.vp/BASELINE.json'))['stable_pass'])
        failed = []
        ran = 0
        env2 = dict(os.environ, PYTHONPATH=wt, JAX_PLATFORMS='cpu')
        bydir = {}
        for t in tests:
            bydir.setdefault(os.path.dirname(t), []).append(t)
        for d, ts in bydir.items():
            treigen = d.endswith('treigen/test')
            jx = os.path.join(wt, 'junit_%d.xml' % len(d))
            subprocess.run(['/venv/bin/python', '-m', 'pytest', '-q', '-p', 'no:cacheprovider', '--timeout=900',
                            '--continue-on-collection-errors', '--junitxml=' + jx] +
                           ([os.path.basename(t) for t in ts] if treigen else ts),
                           capture_output=True, text=True, env=env2, cwd=d if treigen else wt)
            if os.path.exists(jx):
                for tc in ET.parse(jx).getroot().iter('testcase'):
                    name = '%s::%s' % (tc.get('classname'), tc.get('name'))
                    if treigen:
                        name = 'optimism.treigen.test.' + name
                    bad = any(ch.tag in ('failure', 'error') for ch in tc)
                    if name in base:
                        ran += 1
                        if bad:
                            failed.append(name)
        meta['existing_tests'] = {'files': [os.path.relpath(t, wt) for t in tests], 'baseline_tests_run': ran,
                                  'baseline_tests_failed': failed}
        print('existing tests: %d baseline tests run in %d files, %d failed %s' % (ran, len(tests), len(failed), failed[:3]))
        ok = ok and not failed
    meta['confirmed'] = bool(ok)
    if not a.no_check:
        cmd = ['/venv/bin/python', os.path.join(verif, 'run_check.py'), a.prop, '--tier', a.tier, '--no-evidence']
        if a.scale:
            cmd += ['--scale', a.scale]
        r = subprocess.run(cmd, capture_output=True, text=True, env=dict(os.environ, VERIF_REPO=wt), cwd=verif)
        lines = (r.stdout + r.stderr).strip().splitlines()
        for l in lines[-6:]:
            print('   ', l[:300])
        verdict = {1: 'KILLED', 0: 'SURVIVED', 2: 'HARNESS-ERROR'}.get(r.returncode, 'rc%d' % r.returncode)
        meta.setdefault('check_runs', []).append({'cmd': ' '.join(cmd[1:]), 'verdict': verdict,
                                                  'violations': [l for l in lines if l.startswith('violation detail')][:3]})
        meta['detected_by_check'] = (r.returncode == 1)
        print('%s %s-%s (confirmed=%s)' % (verdict, a.prop, a.name, ok))
    os.makedirs(dest, exist_ok=True)
    if os.path.abspath(patch) != os.path.join(dest, 'patch.diff'):
        shutil.copy(patch, os.path.join(dest, 'patch.diff'))
        shutil.copy(demo, os.path.join(dest, 'demo.py'))
    json.dump(meta, open(os.path.join(dest, 'meta.json'), 'w'), indent=1)
finally:
    subprocess.run(['git', '-C', '/repo', 'worktree', 'remove', '--force', wt])
    shutil.rmtree(wt, ignore_errors=True)
