#!/usr/bin/env python3
"""sweep.py <tier> <seed> [<seed> ...] [--props C01,C02]: run every registered check at the given seeds (no evidence written),
print one line per (property, seed).  Used to confirm the checks stay quiet on the unchanged tree."""
import json
import os
import subprocess
import sys
import time

verif = os.path.dirname(os.path.dirname(os.path.abspath(__file__)))
args = [a for a in sys.argv[1:] if not a.startswith('--')]
tier = args[0]
seeds = args[1:]
props = [c['property_id'] for c in json.load(open(os.path.join(verif, 'MANIFEST.json')))['checks']]
for a in sys.argv[1:]:
    if a.startswith('--props='):
        props = a.split('=')[1].split(',')
subprocess.run(['sh', os.path.join(verif, 'tools', 'setup.sh')], cwd=verif)
for sd in seeds:
    for p in props:
        t = time.time()
        r = subprocess.run(['/venv/bin/python', os.path.join(verif, 'run_check.py'), p, '--tier', tier, '--no-evidence'],
                           capture_output=True, text=True, env=dict(os.environ, VERIF_SEED=sd), cwd=verif)
        lines = (r.stdout + r.stderr).strip().splitlines()
        viol = [l for l in lines if l.startswith('violation detail') or l.startswith('HARNESS-ERROR') or l.startswith('VIOLATION')][:4]
        print('%s seed=%s exit=%d %.0fs %s' % (p, sd, r.returncode, time.time() - t, ([l for l in lines if ' tier=' in l and 'evaluations' in l] or lines or [''])[-1][:200]), flush=True)
        for v in viol:
            print('    ' + v[:400], flush=True)
