#!/usr/bin/env python3
"""Run a registered check against a scratch copy of /repo with one patch applied.

usage: mutation_run.py <PROP> <patch> [--reverse] [--tier quick] [--seed N] [--scale S] [--sub NAME]
Prints KILLED / SURVIVED and the check's last lines.  The scratch worktree (outside /repo and
/verif) is removed afterwards.  Nothing is written to evidence/.
"""
import argparse
import os
import shutil
import subprocess
import sys
import tempfile

ap = argparse.ArgumentParser()
ap.add_argument('prop')
ap.add_argument('patch')
ap.add_argument('--reverse', action='store_true')
ap.add_argument('--tier', default='quick')
ap.add_argument('--seed', default='1')
ap.add_argument('--scale', default=None)
ap.add_argument('--sub', default=None)
ap.add_argument('--workers', default=None)
ap.add_argument('--fail-fast', action='store_true')
a = ap.parse_args()

verif = os.path.dirname(os.path.dirname(os.path.abspath(__file__)))
wt = tempfile.mkdtemp(prefix='mut_', dir='/tmp')
os.rmdir(wt)
subprocess.check_call(['git', '-C', '/repo', 'worktree', 'add', '--detach', '-q', wt, 'HEAD'])
try:
    # carry over uncommitted state of /repo as well (checks must reflect the working tree)
    diff = subprocess.run(['git', '-C', '/repo', 'diff'], capture_output=True, text=True).stdout
    if diff.strip():
        subprocess.run(['git', '-C', wt, 'apply'], input=diff, text=True, check=True)
    cmd = ['git', '-C', wt, 'apply'] + (['-R'] if a.reverse else []) + [os.path.abspath(a.patch)]
    r = subprocess.run(cmd, capture_output=True, text=True)
    if r.returncode != 0:
        print('PATCH-FAILED', r.stderr)
        sys.exit(3)
    env = dict(os.environ, VERIF_REPO=wt, VERIF_SEED=a.seed)
    cmd = ['/venv/bin/python', os.path.join(verif, 'run_check.py'), a.prop, '--tier', a.tier, '--no-evidence']
    if a.scale:
        cmd += ['--scale', a.scale]
    if a.sub:
        cmd += ['--sub', a.sub]
    if a.workers:
        cmd += ['--workers', a.workers]
    if a.fail_fast:
        cmd += ['--fail-fast']
    r = subprocess.run(cmd, capture_output=True, text=True, env=env, cwd=verif)
    lines = (r.stdout + r.stderr).strip().splitlines()
    for l in lines[-12:]:
        print('   ', l[:400])
    print('%s %s %s exit=%d' % ('KILLED' if r.returncode == 1 else ('HARNESS-ERROR' if r.returncode == 2 else 'SURVIVED'),
                                a.prop, os.path.basename(a.patch), r.returncode))
    sys.exit(0 if r.returncode == 1 else 1)
finally:
    subprocess.run(['git', '-C', '/repo', 'worktree', 'remove', '--force', wt])
    shutil.rmtree(wt, ignore_errors=True)
