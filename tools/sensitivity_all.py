#!/usr/bin/env python3
"""sensitivity_all.py [--only C05,C17] [--kinds mutant,fix,seeded] [--jobs N]

Runs the registered quick check of the owning property against every deliberate breakage kept under /verif:
  mutants/<ID>/*.patch          my own mutants                       (applied forward)
  mutants/fixes/D*.patch        the "fix:" commits                   (applied in reverse = defect re-introduced)
  seeded/<ID>-mN/patch.diff     changes written by independent sub-agents
each in a scratch worktree of /repo HEAD (VERIF_REPO), stopping at the first violating shard (--fail-fast), and records
verdict, first violated clause and wall time in sensitivity/RESULTS.json (merged with earlier results, keyed by patch path
and stamped with the /verif and /repo commits it was obtained on).  Nothing is written to evidence/.
"""
import concurrent.futures as cf
import glob
import json
import os
import re
import subprocess
import sys
import time

verif = os.path.dirname(os.path.dirname(os.path.abspath(__file__)))
out = os.path.join(verif, 'sensitivity', 'RESULTS.json')
only = None
kinds = {'mutant', 'fix', 'seeded'}
jobs = 1
resume = '--resume' in sys.argv
for a in sys.argv[1:]:
    if a.startswith('--only='):
        only = set(a.split('=')[1].split(','))
    if a.startswith('--kinds='):
        kinds = set(a.split('=')[1].split(','))
    if a.startswith('--jobs='):
        jobs = int(a.split('=')[1])

known = json.load(open(os.path.join(verif, 'known_findings.json')))['findings']
items = []
for p in sorted(glob.glob(os.path.join(verif, 'mutants', 'C*', '*.patch'))):
    items.append(('mutant', os.path.basename(os.path.dirname(p)), p, False))
for p in sorted(glob.glob(os.path.join(verif, 'mutants', 'fixes', 'D*.patch'))):
    did = os.path.basename(p)[:-6]
    ent = [k for k in known if k['id'] == did]
    if not ent:
        continue
    for prop in ent[0]['properties'][:1]:
        items.append(('fix', prop, p, True))
for p in sorted(glob.glob(os.path.join(verif, 'seeded', 'C*', 'patch.diff'))):
    items.append(('seeded', os.path.basename(os.path.dirname(p)).split('-')[0], p, False))
items = [i for i in items if i[0] in kinds and (only is None or i[1] in only)]
if resume and os.path.exists(out):
    done = json.load(open(out))
    items = [i for i in items if done.get(os.path.relpath(i[2], verif), {}).get('verdict') != 'KILLED']


def git(repo, *args):
    return subprocess.run(['git', '-C', repo] + list(args), capture_output=True, text=True).stdout.strip()


stamp = {'verif_commit': git(verif, 'rev-parse', '--short', 'HEAD'), 'repo_commit': git('/repo', 'rev-parse', '--short', 'HEAD')}


def run(item):
    kind, prop, path, reverse = item
    chk = subprocess.run(['git', '-C', '/repo', 'apply', '--check'] + (['-R'] if reverse else []) + [path], capture_output=True, text=True)
    rel = os.path.relpath(path, verif)
    if chk.returncode != 0:
        return rel, {'kind': kind, 'property': prop, 'verdict': 'DOES-NOT-APPLY', **stamp}
    t = time.time()
    cmd = ['python3', os.path.join(verif, 'tools', 'mutation_run.py'), prop, path, '--fail-fast'] + (['--reverse'] if reverse else [])
    r = subprocess.run(cmd, capture_output=True, text=True)
    lines = (r.stdout + r.stderr).splitlines()
    verdict = ([l.split()[0] for l in lines if re.match(r'^(KILLED|SURVIVED|HARNESS-ERROR|PATCH-FAILED)\b', l)] or ['?'])[-1]
    viol = [l.strip()[len('violation detail: '):] for l in lines if l.strip().startswith('violation detail:')]
    return rel, {'kind': kind, 'property': prop, 'verdict': verdict, 'first_violation': viol[0][:300] if viol else None,
                 'wall_s': round(time.time() - t, 1), **stamp}


os.makedirs(os.path.dirname(out), exist_ok=True)
res = json.load(open(out)) if os.path.exists(out) else {}
with cf.ThreadPoolExecutor(max_workers=jobs) as ex:
    for rel, r in ex.map(run, items):
        res[rel] = r
        print('%-14s %-8s %-55s %6.0fs  %s' % (r['verdict'], r['property'], rel, r.get('wall_s', 0), (r.get('first_violation') or '')[:110]), flush=True)
        json.dump(res, open(out, 'w'), indent=1, sort_keys=True)
bad = [k for k, v in res.items() if v['verdict'] != 'KILLED']
print('%d results, not killed: %s' % (len(res), bad))
