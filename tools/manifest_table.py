# executed by gen_manifest.py
add('C14', 'Hypothesis-generated meshes/BC sets + exhaustive enumeration of small BC patterns; exact brute-force oracle',
    'Generated search over meshes (three kinds, order 1-3), 1-3 fields and arbitrary essential-BC lists; every one of the '
    '2^8 and 2^9 BC patterns on two tiny meshes is enumerated. All oracles are exact (set equality, bit-exact round trips, '
    'integer-valued assembly), so any generated counterexample is a real violation; absence on larger meshes is sampled only.',
    'Trusts numpy and the checker\'s own brute-force (node, component) table; DofManager is given a genuine FunctionSpace '
    'object whose shape arrays are placeholders (it only reads .mesh).')
add('C18', 'Hypothesis-generated ladders of arguments on/around every branch switch; inequality + Lipschitz (C1) oracles',
    'Generated search: ~1e6 evaluations per quick run on ladders placed exactly on, 1-8 ulps from and at 1e-15..1e-1 relative distance '
    'from every branch switch of smooth min/max/abs, the friction potential, zmax and smooth_linear, widths over ten decades. '
    'Oracles are the stated inequalities with a rounding allowance, exact equality outside the band, and Lipschitz continuity of '
    'value and jax.grad between neighbouring ladder points. Sampling only; no exhaustiveness claimed.',
    'Rounding allowance 8*ulp*max(|x|,|y|,width); subnormal arguments excluded (XLA flushes them); trusts numpy for the true min/max/abs.')
add('C17', 'Hypothesis-generated function families with analytically known roots, brackets, guesses, settings and execution modes; closed-form oracle',
    'Generated search over eight function families (monotone, multi-root, flat, steep power law), brackets of either orientation with and '
    'without sign change, end-point roots, guesses inside/outside, tolerances, iteration caps that force the failure exit, and '
    'jit / vmap / un-jitted execution. Oracle: analytically known roots, re-evaluated residual, NaN iff no sign change, gradient vs '
    'closed-form implicit-function value. Sampling; functions outside the families are not covered.',
    'End values within 64 ulp of the added terms are treated as sign-ambiguous (either outcome accepted); function values at the '
    'ends limited to 1e-20..1e20; x_tol >= 16 ulp of the bracket scale; non-NaN required only when max_iters >= 4*log2(width/x_tol)+10.')
add('C12', 'Hypothesis-generated spectrum/orientation/magnitude classes, single and batched execution; reconstruction, identity, 40-digit Frechet-derivative and exact-rational oracles',
    'Generated search over spectrum classes (distinct, nearly/exactly repeated, rank deficient, traceless), orientation classes and forty orders '
    'of magnitude, each evaluated as a single compiled call and inside jit(vmap). Oracles: V L V^T = A, V^T V = I, ordering, numpy eigvalsh; '
    'sqrt/exp/log/pow identities and rotation equivariance; JVP rules against a 40-digit mpmath Daleckii-Krein Frechet derivative; det(A+I)-1 against '
    'exact rational arithmetic; inverse / polar identities; dense sqrtm/logm against scipy. Sampling, not exhaustive.',
    'mpmath and numpy/scipy are trusted references; tolerances 1e-10 (identities, times condition number), 1e-8 (derivatives), 1e-7 for logm_iss '
    '(its stated accuracy in the upstream tests); tensors with internal dynamic range above 1e100 and subnormal magnitudes are excluded; '
    'known finding D1 covers only failures of compiled evaluation that the op-by-op evaluation of the same routine does not show.')
add('C16', 'Hypothesis-generated segments, query-point classes, facing segment pairs in overlap classes, rigid motions, meshes with displacement fields vs plane/corner/circle obstacles; validity-predicate, metamorphic and reference-value oracles',
    'Generated search: closest-point projection against a checker-side clamped projection and sampled segment points; signed distance magnitude/sign; '
    'mortar integrals for both normal rules and six integrands under rigid motions (metamorphic), exact zero without overlap, non-negativity, overlap length '
    'and gap area for parallel pairs within the smoothing length; nodal areas on facing polylines; penalty energy and level-set constraints against the obstacle '
    'function at checker-computed deformed Gauss points. Sampling only.',
    'Pairs face each other (anti-parallel within 60 degrees) as the contact search delivers them; distance accuracy is absolute (1e-12 of segment length plus '
    '16 ulp of the coordinates); the sign of the distance is not asserted for points on the line within rounding; mortar claims for tilted pairs are limited to '
    'invariance, non-negativity, vanishing without overlap and agreement of compute_intersection with an independent projection along the common normal.')
add('C20', 'Hypothesis-generated writer histories (model-based: ordered field tables, spheres, edges) + independent legacy-VTK reader; round-trip and byte-identity oracles',
    'Generated histories of add_nodal_field / add_cell_field / add_sphere / add_contact_edges / write on meshes of order 1-4 are executed against the real '
    'writer and against a model; after every write an independent strict reader parses the file and all counts, connectivity, coordinates and values are '
    'compared with the model; consecutive writes must be byte-identical. Sampling of histories up to 11 operations.',
    'The checker-side reader is the reference for well-formedness; fields are supplied with documented shapes; contact edges use vertex node ids.')
add('C13', 'Hypothesis-generated meshes (lattice / Delaunay with holes / structured, rotated and permuted numbering), set tables, mesh pairs and checker-written JSON / Exodus files; validity-predicate, brute-force and round-trip oracles',
    'Generated search with a validity predicate over every returned Mesh (range, coverage, CCW orientation, set membership), a brute-force edge table for '
    'create_edges, affine node placement / reversed shared edge nodes / node counts for order elevation 2..5 with and without bubble, containment of every '
    'set member after merging (including equal names), and equality with what the checker wrote for the JSON and Exodus readers (TRI3/tri/TRI6, 1-3 blocks, '
    'unnamed sets, element id maps). All structured sizes 2..6 are enumerated; everything else is sampled.',
    'Input meshes are valid by construction; the checker-side Exodus writer follows the layout of optimism/test/patch_2_blocks.exo; '
    'coordinates of structured meshes are compared to 1e-13 (numpy vs jax linspace).')
add('C03', 'Hypothesis-generated meshes x element order 1-5 x bubble x rule degree x cartesian/axisymmetric; reference-model oracle (checker-side conical-product Gauss rule, analytic monomials)',
    'Generated search: partition of unity, exact interpolation of every monomial up to the element order (values and gradients at checker-computed physical '
    'quadrature points), volume sum, exact integration of every monomial up to the rule degree (one less in axisymmetric mode), and the divergence theorem '
    'over the closed boundary including holes, for distorted/graded/rotated meshes. Sampling of meshes; the monomial basis settles all polynomials by linearity.',
    'Reference integrals from a 10x10 Gauss-Legendre conical product rule written in numpy; coordinates are centred and scaled so tolerances (1e-10) are relative; '
    'a degree-q rule is required to integrate p*r only for deg p <= q-1.')
add('C06', 'Hypothesis-generated spectra / gradients / radii / preconditioners / settings; validity-predicate and reference-solution oracles (checker-side Cauchy step, eigen-decomposition + bracketed secular root)',
    'Generated search over dimensions 1-40, definite / indefinite / singular / repeated / clustered spectra, gradients generic, orthogonal and nearly orthogonal '
    'to the lowest eigenspace, radii over twelve decades, four preconditioner kinds and both inner products. Truncated CG: inside the region in the configured norm, '
    'no worse than the Cauchy step, on the boundary / converged when it says so. Dogleg: inside and on the two-segment path. treigen.solve: global minimum from an '
    'independent eigen-decomposition and bracketed secular root with explicit hard case; non-termination is detected by a double time limit.',
    'Dense numpy/scipy reference; boundary norm tolerance 1e-5 (recurrence drift), model-value tolerance 1e-7*(|m*| + |g| radius); a treigen call that does not return '
    'within 15 s and again within 45 s counts as a violation (typical call: milliseconds).')
add('C08', 'Hypothesis-generated material constants, deformation-gradient classes and rotations for every model/option; metamorphic oracle (superposed and reference rotations) and rest-state oracle, single and batched execution',
    'Generated search over all 33 model/option configurations with admissible constants, seven deformation classes (including two or three equal principal '
    'stretches) over eight decades of strain and generic / in-plane rotations; W(QF)=W(F), W(FQ)=W(F), P F^T symmetric for finite-deformation formulations, '
    'W(0)=P(0)=0 and finiteness for every option, evaluated by a single compiled call and inside jit(vmap). Sampling.',
    'Rounding allowance 1e3*ulp*K*max(e,e^2) + 50*ulp*K; plastic models only in their elastic regime; the model factories are called inside the compiled function '
    'with traced constants (as the inverse-problem code does); D1 covers only compiled-vs-op-by-op discrepancies at relative stretch gap < 1e-4.')
add('C09', 'Hypothesis-generated multi-step deformation histories (segment kinds incl. states placed on the yield surface) x kinematics x hardening x rate sensitivity; invariant-over-history and reference-model oracles (checker-side strain measures, hardening laws, incremental potential)',
    'Generated histories of up to 10 steps for all 18 J2 configurations; after every update the checker verifies eqps monotonicity (exact), isochoric plastic distortion, '
    'yield consistency from the committed state with its own numpy strain measures and hardening formulas, equality of the library energy with the incremental potential at '
    'the library increment and its minimality against 24 admissible alternatives, and for rate-independent laws idempotence and before/after-commit equality. Sampling of histories.',
    'Model tolerance 1e-10*Y0 (x10) plus 1e-9 relative rounding; for rate-sensitive laws the surface is known only up to the overstress of an increment of 8 ulp of eqps; '
    'known findings D16 (rate-sensitive root solve cannot localise increments < 1e-12 of the bracket) and D1 (compiled vs op-by-op discrepancies) are excluded by mechanism-specific predicates.')
add('C11', 'Hypothesis-generated (F, dt) histories with holds for the 1- and 3-branch models; invariant-over-history oracles with checker-side stored-energy and limit formulas',
    'Generated histories (load / unload / hold, dt/tau over twelve decades, deformation classes with rotation): dissipation >= 0 and det Fv = 1 after every step, '
    'monotone decay of the stored non-equilibrium energy (recomputed from the committed state in numpy) during holds, and the instantaneous / equilibrium limits of the '
    'virgin energy. Sampling of histories and constants.',
    'Checker-side log strains by numpy eigh; limit bounds 3*(dt/tau) resp. 3*(tau/dt) times the non-equilibrium energy plus 50 ulp of the stiffness; D1 matched by op-by-op re-evaluation.')
add('C10', 'Hypothesis-generated constants, short committed histories, evaluation states (elastic / yielding / relaxing) and perturbation directions for every model; differential oracle: AD derivatives vs 6th-order finite differences of the energy with two step sizes',
    'Generated search over all 33 model/option configurations: jax.grad(W):dH against a 6th-order central difference of W, jvp(grad W)[dH] against the difference of the AD gradient and '
    'dH:C:dH against the 6th-order second difference of W, at states produced by the library update (so the embedded root solve and the hand-written tensor-function JVP rules are '
    'exercised). Stencils straddling the yield switch are discarded; differences that do not agree between two step sizes make the case inconclusive, never a failure.',
    'Finite differences of the library energy are the reference; tolerances 1e-6 (first) and 1e-5 (second derivatives) relative to the stiffness scale; D1 matched by op-by-op re-evaluation.')
add('C01', 'Hypothesis-generated objective families x start points x solver settings x preconditioner state x entry point; history invariants over the callback sequence and reference-solution oracle (checker-side value/gradient of the raw function, dense Newton minimiser)',
    'Generated search: seven objective families (convex, indefinite, singular, badly scaled, multi-modal) in dimension 1-12, settings that force each exit path (convergence, iteration cap, '
    'radius collapse with preconditioner retry), exact / stale / identity preconditioners, both inner products, incremental mode, direct call and load-step driver with a new parameter set. '
    'Oracles: returned point = last reported iterate, monotone objective along reported iterates (rounding bound from the sum of absolute terms), flag True => recomputed gradient norm '
    'under the requested parameters < tol, objective.p = requested parameters, and success + unique minimiser on the well-conditioned convex sub-domain with default settings (start points up to 2e4 from the minimiser); a generated neighbourhood of a configuration that takes the rising-model branch (indefinite Hessian, preconditioner factorised elsewhere) is a separate sub-check.',
    'The dense Cholesky stand-in replaces scikit-sparse; exit paths are classified from the solver banners; known finding D9 (uphill trial point returned by the convergence exit) is '
    'excluded only for the last iterate of a successful solve.')
add('C19', 'Hypothesis-generated parameterised energies, parameter changes, preconditioner states and load-step sequences through the drivers; reference-model oracle (dense Hessian / parameter Jacobian / Newton minimiser) and per-step invariants',
    'Generated search: warm_start_increment against the dense linear predictor (both parameter slots, exact and stale preconditioner, exact landing for quadratic energies; also through the augmented-Lagrangian '
    'objective with multipliers and penalties grown since construction, against the augmented Lagrangian written out by the checker), ScaledObjective against the '
    'plain objective and a dense Newton minimiser on badly scaled unknowns, and sequences of 2-4 load steps through nonlinear_equation_solve and TrustRegionSPG.solve with warm start / preconditioner '
    'refresh on or off, checking after every step that objective.p is the requested set and that a True flag refers to it. Sampling.',
    'scipy cg relative tolerance 1e-5 (2e-5 allowed) is the accuracy of the predictor; the augmented-Lagrangian and bound-constrained drivers are exercised under C04; '
    'RuntimeError("No acceptable Cauchy point") from the SPG solver is a documented non-return (counted as inconclusive).')
add('C05', 'Hypothesis-generated boxes (finite / one-sided / degenerate), feasible starts on faces and vertices, objective families and SPG settings; validity-predicate, history-invariant and reference-solution oracles',
    'Generated search: project() against the clamp and the projection inequality, project_onto_tr() for membership in box and ball, and solver runs (both entry points, monotone and non-monotone '
    'spectral line search) checked for feasibility of every reported iterate, monotone objective, recomputed projected-gradient measure on success and agreement with an independent, KKT-verified '
    'bound-constrained minimiser on convex families. Sampling.',
    'Feasibility allowance 16 ulp*(|x|+radius); ball membership to the brentq tolerance 8e-12*|x-x_k| (ratios up to 1e6); D9 (uphill trial point returned by the convergence exit) shared with C01; '
    'RuntimeError("No acceptable Cauchy point") counted as a documented non-return.')
add('C04', 'Hypothesis-generated objectives and constraint sets (active / inactive / weakly active / redundant, linear and concave), multipliers, penalties and solver settings; KKT validity predicate recomputed from raw functions, active-set enumeration as reference, history invariants from the callback',
    'Generated search: on every normal return the Lagrangian gradient, feasibility, multiplier sign and complementarity are recomputed from the raw objective and constraint functions with bounds '
    'that follow from the Fischer-Burmeister termination test; strictly convex QPs with linear constraints are compared with an enumeration of all 2^m active sets; the callback history is checked for '
    'non-negative multipliers and non-decreasing penalties, also with an iteration cap that makes sub-solves fail; the bound-constrained front end is checked with its own multipliers, with and without PrecondStrategy and constraintStiffnessScaling. Sampling.',
    'Constraint sets without an interior point (checker-side SLSQP on max_x min_i c_i) are outside the domain; non-returns (NameError) are counted, not asserted; sub-solver tolerance = 0.5*AL tolerance and reset_kappa() as all callers do; penalties fixed per compiled objective (baked into the FB residual).')
add('C02', 'Hypothesis-generated distorted meshes, materials with evolved internal state, displacement fields, essential-BC subsets, block partitions and Newmark parameters; differential oracle: element-wise assembled matrix vs jax.hessian of the library energy as a whole',
    'Generated search over seven groups of (factory, material, 2D mode, pressure projection, element order) cells: the matrix assembled from element stiffness blocks through the DofManager '
    'index maps is compared with the unknown x unknown block of the AD Hessian of compute_strain_energy / compute_algorithmic_energy with respect to the full nodal field (1e-9 relative), '
    'symmetry, and multi-block vs single-block energy / stiffness / state update with interleaved block element ids. Sampling; order 3 and more materials in the thorough tier.',
    'AD of the global energy is the reference for the second derivative (a different code path from the vmapped element Hessians and the COO assembly); the factories are rebuilt from traced '
    'coordinates with a static parent element and quadrature rule; pressure-projection cells are built eagerly per case; shards that exhaust their time budget report the remainder as inconclusive.')
add('C15', 'Hypothesis-generated meshes, constants, Newmark parameters, initial fields and variable time-step sequences; history invariants with a checker-side dense Newton minimiser of the library algorithmic energy',
    'Generated sequences of 1-8 variable time steps: predictor and corrector formulas, discrete momentum balance with the mass matrix taken as the Hessian of the kinetic energy (cross-checked against the '
    'assembled element masses and density*area), total energy conservation for the trapezoidal rule on linear elasticity, and exact rigid translation; general (gamma, beta) in the unconditionally stable '
    'range, with and without essential BCs, orders 1-2, linear elastic and neo-Hookean, density over 14 decades (absolute dt down to 1e-8), and a sub-check with pressure projection degree 0 / 1 (factories built eagerly). Sampling.',
    'The minimiser of the algorithmic energy is computed by the checker (dense Newton), independent of the trust-region solver; cases where Newton does not reach 1e-10 are inconclusive; '
    'tolerances include the rounding of the acceleration as a difference of displacements.')
add('C07', 'Hypothesis-generated parameterised energies, cotangents and multi-step pullback orders; preset distorted meshes with generated displacements / states / cotangents; differential oracle against dense implicit-function-theorem derivatives and dense forward-mode Jacobians',
    'Generated search: jax.vjp through nonlinear_solve (design slot) and nonlinear_solve_with_state (bc, state, design, time slots) against -(dg/dp)^T H^-1 v assembled with dense jacfwd and numpy solve, '
    'with the pullbacks of several load steps applied after all forward solves on one objective; every MechanicsInverse helper VJP (state update w.r.t. previous state / displacement / coordinates, residual '
    'w.r.t. previous state / coordinates) against the transposed action of dense forward-mode Jacobians for neo-Hookean, J2 and viscoelastic (dt > 0) models; construct_function_space_for_adjoint against direct '
    'construction on the moved mesh (orders 1-3, both 2D modes). Sampling.',
    'Adjoint CG tolerance max(cg_tol, 1e-5|v|) propagated through |H^-1||dg/dp|; helper meshes are a few preset distorted meshes per model so that compiled helpers can be reused (displacements, states, '
    'cotangents and time steps are generated); products below 1e-6*stiffness/h^2 are treated as rounding noise.')
