# executed by gen_manifest.py
add('C14', 'Hypothesis-generated meshes/BC sets + exhaustive enumeration of small BC patterns; exact brute-force oracle',
    'Generated search over meshes (three kinds, order 1-3), 1-3 fields and arbitrary essential-BC lists; every one of the '
    '2^8 and 2^9 BC patterns on two tiny meshes is enumerated. All oracles are exact (set equality, bit-exact round trips, '
    'integer-valued assembly), so any generated counterexample is a real violation; absence on larger meshes is sampled only.',
    'Trusts numpy and the checker\'s own brute-force (node, component) table; DofManager is given a genuine FunctionSpace '
    'object whose shape arrays are placeholders (it only reads .mesh).')
