#!/bin/sh
# Offline setup: hypothesis must import in /venv (pre-installed on this image); mpmath (pure Python, used as a
# high-precision reference by C12) goes into /verif/.deps, which the runner appends to sys.path.
set -e
cd "$(dirname "$0")/.."
if ! /venv/bin/python -c "import hypothesis" 2>/dev/null; then
  /venv/bin/pip install --no-index --find-links /opt/veriftools/wheels hypothesis
fi
if ! PYTHONPATH=.deps /venv/bin/python -c "import mpmath" 2>/dev/null; then
  /venv/bin/pip install -q --no-index --find-links /opt/veriftools/wheels --target .deps mpmath
fi
PYTHONPATH=.deps /venv/bin/python -c "import hypothesis, jax, scipy, numpy, netCDF4, mpmath; print('setup ok: hypothesis', hypothesis.__version__, 'mpmath', mpmath.__version__)"
