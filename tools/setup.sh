#!/bin/sh
# Offline setup: make sure hypothesis is importable in /venv (it is pre-installed on this image).
set -e
if ! /venv/bin/python -c "import hypothesis" 2>/dev/null; then
  /venv/bin/pip install --no-index --find-links /opt/veriftools/wheels hypothesis
fi
/venv/bin/python -c "import hypothesis, jax, scipy, numpy, netCDF4; print('setup ok: hypothesis', hypothesis.__version__)"
