"""C09 - J2 plasticity update: irreversible, isochoric, yield-consistent, variational."""
import math

import numpy as onp
from hypothesis import strategies as st

from vlib.core import Sub, Result, Failure
from vlib import gen
from vlib import materials as mats

PROPERTY = 'C09'
EPS = gen.EPS
RULE = ('Histories of up to 10 (displacement gradient, dt) steps assembled from segment kinds (proportional ramp, reversal, random '
        'non-proportional direction, tiny 1e-10 increment, large increment, hold, trial state placed exactly on / one tolerance either side '
        'of the yield surface) for every kinematics (small, large, seth hill) x hardening law (linear, Voce, power law) x rate sensitivity '
        '(off / power law), admissible constants, dt = 1e-6..1e3. After every compute_state_new: eqps monotone (exact), isochoric plastic '
        'distortion, Mises stress recomputed by the checker from the committed state (numpy eigh log strain, own hardening formulas) on or '
        'inside the rate-dependent yield surface, library energy = checker incremental potential at the library increment and <= the '
        'potential at 24 admissible alternatives, and for rate-independent laws idempotence and equality of energy/stress before and after '
        'commit. Non-trivial: history with >= 1 yielding step and >= 1 elastic (unloading or hold) step.')
ASSUMPTIONS = ['yield tolerance of the model: 1e-10*Y0 on the residual; the oracle allows 10x that plus 1e-9 relative rounding of the strain measures',
               'strain stays below 0.5 so that F is far from singular']

_C = {}
TOL = 1e-10


def compiled(name):
    if name not in _C:
        import jax
        cfg = mats.CONFIGS[name]
        W = mats.energy_fn(cfg)
        S = mats.state_new_fn(cfg)
        VG = jax.value_and_grad(W)

        def step(H, state, dt, pv):
            sn = S(H, state, dt, pv)
            w0, p0 = VG(H, state, dt, pv)
            w1, p1 = VG(H, sn, dt, pv)
            sn2 = S(H, sn, dt, pv)
            return sn, w0, p0, w1, p1, sn2
        _C[name] = (jax.jit(step), step)
    return _C[name]


def KNOWN_D1(sub, case, failure):
    d = failure.data
    return bool(d.get('fusion_only') is True)


def KNOWN_D16(sub, case, failure):
    """D16: rate-sensitive J2, NaN from the internal root solve when the exact plastic increment lies so close to the lower
    bracket end (where the overstress has infinite slope) that 50 safeguarded iterations cannot localise it: increment below
    1e-12 of the bracket width, or below the floating-point resolution of the accumulated plastic strain."""
    d = failure.data
    r, b = d.get('increment_over_resolution'), d.get('increment_over_bracket')
    if not (failure.clause == 'finite' and d.get('rate') and d.get('fusion_only') is False):
        return False
    return bool((r is not None and r < 64.0) or (b is not None and b < 1e-12))


def d16_diagnostics(cfg, hard, mu, H, so, dt):
    """Where is the exact plastic increment relative to the floating-point resolution of eqps and to the bracket of the
    library's root solve?  (checker-side bisection in the increment variable; known finding D16)"""
    ee_t = elastic_strain(cfg, H, so)
    ndt = onp.linalg.norm(dev(ee_t))
    tm = math.sqrt(1.5) * 2 * mu * ndt
    e0 = float(so[0])
    g = lambda dd: -(tm - 3 * mu * dd) + hard.flow(e0 + dd) + hard.overstress(dd, dt)
    hi_ = max((tm - hard.flow(e0)) / (3 * mu), 0.0)
    dstar = None
    if hi_ > 0 and g(0.0) < 0 <= g(hi_):
        lo_ = 0.0
        for _ in range(400):
            mid = 0.5 * (lo_ + hi_) if lo_ > 0 else hi_ * 1e-3
            if g(mid) < 0:
                lo_ = mid
            else:
                hi_ = mid
            if lo_ > 0 and hi_ / lo_ < 1 + 1e-6:
                break
        dstar = hi_
    width = max((tm - hard.flow(e0)) / (3 * mu), 1e-300)
    return {'rate': hard.rate, 'increment_over_resolution': None if dstar is None else dstar / (EPS * max(e0, 1e-300)),
            'increment_over_bracket': None if dstar is None else dstar / width}


KNOWN_MATCH = {'D1': KNOWN_D1, 'D16': KNOWN_D16}

SEGS = ['ramp', 'ramp', 'reverse', 'random', 'tiny', 'large', 'hold', 'at_yield', 'random']


def make_cases(names):
    @st.composite
    def cases(draw):
        name = names[draw(st.integers(0, len(names) - 1))]
        cfg = mats.CONFIGS[name]
        pr = draw(mats.properties(cfg))
        n = draw(st.integers(2, 10))
        steps = []
        for _ in range(n):
            kind = SEGS[draw(st.integers(0, len(SEGS) - 1))]
            d = draw(st.lists(gen.floats(-1, 1), min_size=5, max_size=5))
            steps.append({'kind': kind, 'dir': d, 'mag': draw(gen.floats(0.3, 6.0)), 'dt': draw(gen.logfloat(-6, 3)),
                          'delta': draw(st.sampled_from([0.0, 1.0, -1.0, 3.0, -3.0]))})
        return {'model': name, 'props': pr, 'steps': steps}
    return cases


# ---------------------------------------------------------------------------------------------------
# checker-side constitutive formulas (numpy)
# ---------------------------------------------------------------------------------------------------

def dev(A):
    return A - onp.trace(A) / 3 * onp.eye(3)


def sym_fun(A, f):
    w, V = onp.linalg.eigh(0.5 * (A + A.T))
    return (V * f(w)) @ V.T


def elastic_strain(cfg, H, state):
    kin = cfg.options['kinematics']
    Pm = onp.asarray(state[1:10]).reshape(3, 3)
    if kin == 'small deformations':
        return 0.5 * (H + H.T) - Pm
    F = H + onp.eye(3)
    if kin == 'seth hill':
        C = F.T @ F
        return (sym_fun(C, lambda w: w ** 0.25) - onp.eye(3)) / 0.5 - Pm
    Fe = F @ onp.linalg.inv(Pm)
    Ee = sym_fun(Fe.T @ Fe, lambda w: 0.5 * onp.log(w))
    return dev(Ee) + math.log(onp.linalg.det(F)) / 3 * onp.eye(3)


class Hard:
    def __init__(self, cfg, pvec):
        p = dict(zip(cfg.pnames, pvec))
        self.p = p
        self.law = cfg.options['hardening model']
        self.rate = 'rate sensitivity' in cfg.options

    def energy(self, e):
        p = self.p
        Y0 = p['yield strength']
        if self.law == 'linear':
            return Y0 * e + 0.5 * p['hardening modulus'] * e * e
        if self.law == 'voce':
            Ys, e0 = p['saturation strength'], p['reference plastic strain']
            return Ys * e + (Ys - Y0) * e0 * math.expm1(-e / e0)
        n, e0 = p['hardening exponent'], p['reference plastic strain']
        A = n * Y0 * e0 / (1 + n)
        return A * ((1 + e / e0) ** ((n + 1) / n) - 1)

    def flow(self, e):
        p = self.p
        Y0 = p['yield strength']
        if self.law == 'linear':
            return Y0 + p['hardening modulus'] * e
        if self.law == 'voce':
            Ys, e0 = p['saturation strength'], p['reference plastic strain']
            return Ys - (Ys - Y0) * math.exp(-e / e0)
        n, e0 = p['hardening exponent'], p['reference plastic strain']
        return Y0 * (1 + e / e0) ** (1 / n)

    def kinetic(self, de, dt):
        if not self.rate or de <= 0:
            return 0.0
        S, m, r0 = self.p['rate sensitivity stress'], self.p['rate sensitivity exponent'], self.p['reference plastic strain rate']
        return m / (m + 1) * S * r0 * dt * (de / dt / r0) ** ((m + 1) / m)

    def overstress(self, de, dt):
        if not self.rate or de <= 0:
            return 0.0
        S, m, r0 = self.p['rate sensitivity stress'], self.p['rate sensitivity exponent'], self.p['reference plastic strain rate']
        return S * (de / dt / r0) ** (1 / m)


def check(case):
    import jax
    import jax.numpy as np
    cfg = mats.CONFIGS[case['model']]
    pr = case['props']
    pv = np.array(pr['pvec'])
    mu, K, Y0, E = pr['mu'], pr['K'], pr['Y0'], pr['E']
    hard = Hard(cfg, pr['pvec'])
    kin = cfg.options['kinematics']
    fstep, raw = compiled(case['model'])
    state = mats.library_initial_state(cfg, pr['pvec']).copy()
    ey = Y0 / (2 * mu * math.sqrt(1.5))          # |dev strain| at first yield
    H = onp.zeros((3, 3))
    lastdir = None
    fails = []
    nyield = nelastic = 0
    classes = set([case['model']])
    for k, stp in enumerate(case['steps']):
        d = stp['dir']
        D = onp.array([[d[0], d[2], 0], [d[3], d[1], 0], [0, 0, 0.0]])       # plane-strain shaped increment
        if kin == 'small deformations' and k % 2:
            D[2, 2] = d[4]
        if onp.abs(D).max() < 1e-3:
            D = D + onp.diag([1.0, -0.5, 0.0])
        D = D / onp.linalg.norm(D)
        kind = stp['kind']
        if kind == 'ramp' and lastdir is not None:
            D = lastdir
        elif kind == 'reverse' and lastdir is not None:
            D = -lastdir
        mag = {'ramp': stp['mag'] * ey, 'reverse': stp['mag'] * ey, 'random': stp['mag'] * ey, 'tiny': 1e-10, 'large': 0.3,
               'hold': 0.0, 'at_yield': 0.0}[kind]
        Hn = H + mag * D
        if kind == 'at_yield':
            # place the trial state on the current yield surface (+- delta tolerances): solved by bisection on the scale of D
            base = elastic_strain(cfg, H, state)
            Yc = hard.flow(float(state[0]))

            def excess(a):
                ee = elastic_strain(cfg, H + a * D, state)
                return math.sqrt(1.5) * 2 * mu * onp.linalg.norm(dev(ee)) - Yc
            lo, hi = 0.0, 4 * ey + 2 * onp.linalg.norm(dev(base))
            if excess(lo) < 0 < excess(hi):
                for _ in range(200):
                    mid = 0.5 * (lo + hi)
                    if excess(mid) < 0:
                        lo = mid
                    else:
                        hi = mid
                a = hi
                # shift by delta tolerances measured in stress: d(mises)/da ~ 2 mu sqrt(1.5)|dev sym D|
                slope = max(excess(a * (1 + 1e-6) + 1e-12) - excess(a), 1e-300) / (a * 1e-6 + 1e-12)
                a = a + stp['delta'] * TOL * Y0 / slope
                Hn = H + a * D
                classes.add('at-yield')
        if onp.abs(Hn).max() > 0.5:
            Hn = H                    # keep F well away from singular: turn the step into a hold
            kind = 'hold'
        if onp.linalg.norm(Hn - H) > 0:
            lastdir = (Hn - H) / onp.linalg.norm(Hn - H)
        H = Hn
        dt = stp['dt']
        so = state.copy()
        out = fstep(np.array(H), np.array(so), dt, pv)
        sn, w0, p0, w1, p1, sn2 = [onp.asarray(o) for o in out]
        data = dict(step=k, kind=kind, model=case['model'])
        what = '%s step %d (%s)' % (case['model'], k, kind)
        if not (onp.all(onp.isfinite(sn)) and onp.isfinite(w0) and onp.all(onp.isfinite(p0))):
            f = Failure('finite', '%s: state/energy/stress not finite' % what, **data)
            f.data.update(d16_diagnostics(cfg, hard, mu, H, so, dt))
            with jax.disable_jit():
                oe = [onp.asarray(o) for o in raw(np.array(H), np.array(so), dt, pv)]
            f.data['fusion_only'] = bool(all(onp.all(onp.isfinite(o)) for o in oe))
            fails.append(f)
            break
        local = []
        de = float(sn[0] - so[0])
        if sn[0] < so[0]:
            local.append(Failure('irreversible', '%s: eqps decreased from %r to %r' % (what, float(so[0]), float(sn[0])), **data))
        Pn = sn[1:10].reshape(3, 3)
        if kin == 'large deformations':
            if abs(onp.linalg.det(Pn) - 1) > 1e-12 * (k + 2):
                local.append(Failure('isochoric', '%s: det Fp - 1 = %.3e' % (what, onp.linalg.det(Pn) - 1), **data))
        elif abs(onp.trace(Pn)) > 1e-13 * max(1.0, onp.abs(Pn).max() / 1e-3):
            local.append(Failure('isochoric', '%s: trace of plastic strain = %.3e' % (what, onp.trace(Pn)), **data))
        # yield consistency from the committed state
        ee_new = elastic_strain(cfg, H, sn)
        mises = math.sqrt(1.5) * 2 * mu * onp.linalg.norm(dev(ee_new))
        Ynew = hard.flow(float(sn[0])) + hard.overstress(de, dt)
        slack = 10 * TOL * Y0 + 1e-9 * (Ynew + 2 * mu * onp.linalg.norm(ee_new))
        if hard.rate:
            # the rate-dependent surface is infinitely steep at zero rate: an increment below the resolution of eqps cannot
            # be committed, so the surface is known only up to the overstress of such an increment
            slack += hard.overstress(8 * EPS * max(float(sn[0]), 1e-300), dt)
        if mises - Ynew > slack:
            local.append(Failure('yield-consistency', '%s: Mises stress %.9g outside the yield surface %.9g (eqps %.3e -> %.3e, dt %.1e)'
                                 % (what, mises, Ynew, float(so[0]), float(sn[0]), dt), **data))
        if de > 1e-14 and Ynew - mises > slack:
            local.append(Failure('yield-consistency', '%s: plastic step but Mises stress %.9g is inside the yield surface %.9g'
                                 % (what, mises, Ynew), **data))
        # variational character
        ee_tr = elastic_strain(cfg, H, so)
        dtr = dev(ee_tr)
        nd = onp.linalg.norm(dtr)
        Wel = lambda e_: 0.5 * K * onp.trace(e_) ** 2 + mu * onp.sum(dev(e_) ** 2)
        if nd > 1e-8:
            N = math.sqrt(1.5) * dtr / nd
        else:
            N = onp.zeros((3, 3))

        def Phi(delta, Ndir):
            return Wel(ee_tr - delta * Ndir) + hard.energy(float(so[0]) + delta) + hard.kinetic(delta, dt)
        phi_lib = Phi(de, N)
        scaleW = abs(phi_lib) + mu * (nd * nd + ey * ey) + Y0 * ey
        if abs(float(w0) - phi_lib) > 1e-8 * scaleW:
            local.append(Failure('variational-value', '%s: library energy %.12g differs from the incremental potential at its own increment %.12g'
                                 % (what, float(w0), phi_lib), **data))
        else:
            ub = max(de * 2, (math.sqrt(1.5) * 2 * mu * nd - hard.flow(float(so[0]))) / (3 * mu) * 1.5, 0.1 * ey)
            worst = 0.0
            for j in range(12):
                dj = ub * j / 11.0
                worst = max(worst, float(w0) - Phi(dj, N))
            for j in range(12):
                ang = 2 * math.pi * j / 12
                M = onp.array([[math.cos(ang), math.sin(ang), 0], [math.sin(ang), -math.cos(ang), 0], [0, 0, 0.0]])
                M = M + (j % 3) * 0.3 * onp.diag([1.0, 1.0, -2.0])
                M = math.sqrt(1.5) * dev(M) / onp.linalg.norm(dev(M))
                worst = max(worst, float(w0) - Phi(max(de, 0.05 * ey), M))
            if worst > 1e-9 * scaleW:
                local.append(Failure('variational-minimum', '%s: an admissible plastic increment has a lower incremental potential by %.3e (scale %.3e)'
                                     % (what, worst, scaleW), **data))
        if not hard.rate:
            sc = max(onp.abs(sn).max(), 1.0)
            if onp.abs(sn2 - sn).max() > 1e-8 * sc:
                local.append(Failure('idempotent', '%s: repeating the update at the same deformation changes the state by %.3e'
                                     % (what, onp.abs(sn2 - sn).max()), **data))
            if abs(float(w1) - float(w0)) > 1e-8 * scaleW:
                local.append(Failure('commit-energy', '%s: energy before commit %.12g, after commit %.12g' % (what, float(w0), float(w1)), **data))
            ps = max(onp.abs(p0).max(), Y0)
            if onp.abs(p1 - p0).max() > 1e-7 * ps:
                local.append(Failure('commit-stress', '%s: stress changes by %.3e (relative %.1e) when the update is committed'
                                     % (what, onp.abs(p1 - p0).max(), onp.abs(p1 - p0).max() / ps), **data))
        if local:
            # is this the compiled-evaluation defect D1 (op-by-op evaluation of the same routines is fine)?
            with jax.disable_jit():
                oe = [onp.asarray(o) for o in raw(np.array(H), np.array(so), dt, pv)]
            agree = all(onp.allclose(a, b, rtol=1e-9, atol=1e-12 * max(1.0, onp.abs(a).max())) for a, b in zip(oe, [sn, w0, p0, w1, p1, sn2]))
            for f in local:
                f.data['fusion_only'] = not agree
            fails += local
            break
        if de > 1e-14:
            nyield += 1
            classes.add('yielding')
        else:
            nelastic += 1
            classes.add('elastic-step')
        classes.add(kind)
        state = sn
    return Result(fails, classes=sorted(classes), nontrivial=bool(nyield >= 1 and nelastic >= 1), n_eval=len(case['steps']))


FAMILIES = {}
for kin in ('small', 'large', 'seth'):
    FAMILIES[kin] = ['j2/%s/%s' % (kin, h) for h in ('linear', 'voce', 'power law')]
    FAMILIES[kin + '-rate'] = ['j2/%s/%s/rate' % (kin, h) for h in ('linear', 'voce', 'power law')]

SUBCHECKS = [
    Sub(fam, make_cases(names), check, quick=60, thorough=3000, shards_quick=2, shards_thorough=3,
        required=tuple(names) + ('yielding', 'elastic-step', 'at-yield', 'reverse', 'hold', 'tiny', 'large'), budget_quick=170)
    for fam, names in FAMILIES.items()
]
