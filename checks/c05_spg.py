"""C05 - bound-constrained trust-region (SPG) solver: feasibility, descent, honest flag; box and box+ball projections."""
import math
import re

import numpy as onp
from hypothesis import strategies as st

from vlib.core import Sub, Result, Failure, capture_stdout
from vlib import gen
from vlib import objectives as obj

PROPERTY = 'C05'
EPS = gen.EPS
RULE = ('projection: boxes with finite, one-sided (+-inf) and degenerate (lb == ub) sides, arbitrary points, centres inside / on faces / at '
        'vertices, radii over 8 decades relative to the distance; oracles = clamp, projection inequality against generated feasible points, '
        'membership in box and ball. solver: objective families (convex and non-convex) in dimension 1-8, boxes as above, feasible starts '
        '(interior, faces, vertices), monotone and non-monotone spectral line search, radii, iteration caps, tolerances; oracles = every '
        'reported iterate inside the box, monotone objective (checker-side evaluation), recomputed projected-gradient measure below tol on '
        'success, agreement with an independent bound-constrained minimiser (scipy L-BFGS-B polished and KKT-verified) for convex '
        'families. Non-trivial: an active bound at the end or a start on the boundary, and >= 2 accepted iterates.')
ASSUMPTIONS = ['feasibility allowance 16*ulp*(|x_i| + radius): iterates are formed as x + z with z accumulated',
               'trust-region projection: brentq works to an absolute tolerance 2e-12 on the ray parameter, so the distance is required to '
               'be <= radius + 8e-12*|x - x_k| (ratios |x - x_k|/radius up to 1e6 are generated)',
               'RuntimeError("No acceptable Cauchy point") is a documented non-return (counted)']

NS = [1, 2, 3, 4, 6, 8]
_O = {}


def get_objective(n):
    if n not in _O:
        import jax.numpy as np
        from optimism import Objective
        f = obj.make_f(n)
        p0 = Objective.Params(np.zeros(n), None, np.concatenate([np.eye(n).ravel(), np.zeros(sum(obj.sizes(n)) - n * n)]))
        with capture_stdout():
            _O[n] = Objective.Objective(f, np.zeros(n), p0)
    return _O[n]


@st.composite
def box(draw, n, scale=1.0):
    lb, ub = [], []
    for _ in range(n):
        kind = ['finite', 'free', 'lower', 'upper', 'finite', 'degenerate'][draw(st.integers(0, 5))]
        a = draw(gen.floats(-2, 2)) * scale
        w = draw(gen.logfloat(-2, 1)) * scale
        if kind == 'free':
            lb.append(-onp.inf)
            ub.append(onp.inf)
        elif kind == 'lower':
            lb.append(a)
            ub.append(onp.inf)
        elif kind == 'upper':
            lb.append(-onp.inf)
            ub.append(a)
        elif kind == 'finite':
            lb.append(a)
            ub.append(a + w)
        else:
            lb.append(a)
            ub.append(a)
    return lb, ub


@st.composite
def feasible_point(draw, lb, ub, scale=1.0):
    x = []
    for l, u in zip(lb, ub):
        where = ['interior', 'lower', 'upper', 'interior'][draw(st.integers(0, 3))]
        t = draw(gen.floats(0.05, 0.95))
        lo = l if onp.isfinite(l) else (u if onp.isfinite(u) else 0.0) - 2 * scale
        hi = u if onp.isfinite(u) else (l if onp.isfinite(l) else 0.0) + 2 * scale
        if where == 'lower' and onp.isfinite(l):
            x.append(l)
        elif where == 'upper' and onp.isfinite(u):
            x.append(u)
        else:
            x.append(lo + t * (hi - lo))
    return x


# ---------------------------------------------------------------------------------------------------
# projections
# ---------------------------------------------------------------------------------------------------

@st.composite
def proj_cases(draw):
    n = draw(st.integers(1, 8))
    lb, ub = draw(box(n))
    x = (onp.array(draw(st.lists(gen.floats(-1, 1), min_size=n, max_size=n))) * draw(gen.logfloat(-1, 2))).tolist()
    xk = draw(feasible_point(lb, ub))
    ys = [draw(feasible_point(lb, ub)) for _ in range(3)]
    ratio = draw(gen.logfloat(-2, 6))
    return {'n': n, 'lb': lb, 'ub': ub, 'x': x, 'xk': xk, 'ys': ys, 'ratio': ratio}


def _nosub(a):
    # XLA on CPU flushes subnormal numbers to zero; they are not part of the input domain
    a = onp.array(a, dtype=float)
    a[onp.abs(a) < 1e-290] = 0.0
    return a


def check_proj(case):
    import jax.numpy as np
    from optimism import TrustRegionSPG as SPG
    lb, ub = _nosub(case['lb']), _nosub(case['ub'])
    bounds = np.array(onp.column_stack([lb, ub]))
    x = _nosub(case['x'])
    xk = _nosub(case['xk'])
    fails = []
    P = onp.asarray(SPG.project(np.array(x), bounds))
    if not onp.array_equal(P, onp.minimum(onp.maximum(x, lb), ub)):
        fails.append(Failure('project-clamp', 'project(x) is not the componentwise clamp'))
    for y in case['ys']:
        y = _nosub(y)
        v = float((x - P) @ (y - P))
        if v > 1e-12 * (1 + onp.abs(x).max() + onp.abs(y).max()) ** 2:
            fails.append(Failure('project-closest', 'projection inequality (x-P).(y-P) <= 0 violated by %.3e for a feasible y' % v))
            break
    dist = onp.linalg.norm(P - xk)
    if dist > 0:
        Delta = dist / case['ratio']
    else:
        Delta = 1.0
    r = onp.asarray(SPG.project_onto_tr(np.array(x), np.array(xk), bounds, Delta))
    if not onp.all(onp.isfinite(r)):
        fails.append(Failure('tr-project-finite', 'project_onto_tr returned non-finite entries'))
    else:
        if onp.any(r < lb) or onp.any(r > ub):
            fails.append(Failure('tr-project-box', 'project_onto_tr returned a point outside the box by %.3e' % max((lb - r).max(), (r - ub).max())))
        d = onp.linalg.norm(r - xk)
        # the projected point is stored in absolute coordinates: its distance to the centre is resolved to a few ulp of the coordinates
        if d > Delta * (1 + 1e-9) + 8e-12 * onp.linalg.norm(x - xk) + 8 * EPS * math.sqrt(len(xk)) * max(onp.abs(xk).max(), onp.abs(x).max()):
            fails.append(Failure('tr-project-ball', 'project_onto_tr: distance to the centre %.9g exceeds the radius %.9g (ratio |x-xk|/radius %.1e)'
                                 % (d, Delta, onp.linalg.norm(x - xk) / Delta)))
        if case['ratio'] <= 0.999 and not onp.allclose(r, P, rtol=0, atol=1e-12 * (1 + onp.abs(P).max())):
            fails.append(Failure('tr-project-inside', 'box projection already inside the trust region but project_onto_tr moved it'))
    kinds = set()
    for l, u in zip(lb, ub):
        kinds.add('degenerate' if l == u else ('free' if not onp.isfinite(l) and not onp.isfinite(u) else
                                               ('one-sided' if not (onp.isfinite(l) and onp.isfinite(u)) else 'finite')))
    return Result(fails, classes=sorted(kinds) + (['outside-tr'] if case['ratio'] > 1 else ['inside-tr']), nontrivial=bool(case['ratio'] > 1))


# ---------------------------------------------------------------------------------------------------
# solver
# ---------------------------------------------------------------------------------------------------

@st.composite
def solver_cases(draw):
    n = NS[draw(st.integers(0, len(NS) - 1))]
    fam = obj.FAMILIES[draw(st.integers(0, len(obj.FAMILIES) - 1))]
    coef = draw(obj.coefficients(n, family=fam, cond_exp=(0.0, 4.0)))
    lb, ub = draw(box(n))
    x0 = draw(feasible_point(lb, ub))
    s = {'nonmonotone': draw(st.booleans()), 'tr_size': draw(gen.logfloat(-2, 2)), 'max_trust_iters': [40, 40, 3, 10][draw(st.integers(0, 3))],
         'max_spg_iters': [25, 5, 2][draw(st.integers(0, 2))], 'tol_rel': draw(gen.logfloat(-9, -3)), 'precnorm': False}
    entry = ['minimize', 'solve'][draw(st.integers(0, 1))]
    return {'n': n, 'coef': coef, 'lb': lb, 'ub': ub, 'x0': x0, 'settings': s, 'entry': entry}


def KNOWN_D9(sub, case, failure):
    return bool(failure.clause == 'descent' and failure.data.get('at_converged_exit') is True)


KNOWN_MATCH = {'D9': KNOWN_D9}


def reference_minimiser(n, coef, lb, ub, x_start):
    """Independent bound-constrained minimiser (convex families): L-BFGS-B then projected Newton polishing; returns x, kkt residual."""
    import jax.numpy as np
    from scipy.optimize import minimize
    fv, fabs, fg, fh = obj.raw_functions(n)
    p = (np.array(coef['b']), None, np.array(coef['design']))
    f = lambda z: float(fv(np.array(z), p))
    g = lambda z: onp.asarray(fg(np.array(z), p))
    bnds = [(None if not onp.isfinite(l) else l, None if not onp.isfinite(u) else u) for l, u in zip(lb, ub)]
    res = minimize(f, onp.array(x_start), jac=g, method='L-BFGS-B', bounds=bnds, options={'ftol': 1e-15, 'gtol': 1e-12, 'maxiter': 2000})
    x = onp.minimum(onp.maximum(res.x, lb), ub)
    for _ in range(30):                     # projected Newton on the free set
        gr = g(x)
        active = ((x <= lb) & (gr > 0)) | ((x >= ub) & (gr < 0))
        free = ~active
        if not free.any():
            break
        H = onp.asarray(fh(np.array(x), p))[onp.ix_(free, free)]
        try:
            dx = -onp.linalg.solve(H, gr[free])
        except onp.linalg.LinAlgError:
            break
        xn = x.copy()
        xn[free] += dx
        xn = onp.minimum(onp.maximum(xn, lb), ub)
        if onp.linalg.norm(xn - x) < 1e-15 * (1 + onp.linalg.norm(x)):
            break
        x = xn
    gr = g(x)
    kkt = onp.linalg.norm(onp.minimum(onp.maximum(x - gr, lb), ub) - x)
    return x, kkt


def _softplus_curvature(n, coef):
    """sum_j s_j |w_j|^2 / 4: global bound on the Hessian of the softplus terms."""
    A, b, q, r, c, a, s_, w, d = obj.unpack(onp, n, onp.array(coef['b']), onp.array(coef['design']))
    return float(onp.sum(onp.abs(s_) * onp.sum(w * w, axis=1)) / 4.0)


def check_solver(case):
    import jax.numpy as np
    from optimism import Objective, TrustRegionSPG as SPG
    n = case['n']
    fv, fabs, fg, fh = obj.raw_functions(n)
    coef = case['coef']
    p = obj.params(np, coef, Objective)
    lb, ub = _nosub(case['lb']), _nosub(case['ub'])
    bounds = np.array(onp.column_stack([lb, ub]))
    x0 = onp.minimum(onp.maximum(_nosub(case['x0']), lb), ub)
    o = get_objective(n)
    o.p = p
    g0 = onp.asarray(fg(np.array(x0), p))
    opt0 = onp.linalg.norm(onp.minimum(onp.maximum(x0 - g0, lb), ub) - x0)
    s = case['settings']
    tol = max(s['tol_rel'] * max(opt0, 1e-300), 1e-13 * (1 + opt0))
    settings = SPG.get_settings(tol=tol, tr_size=s['tr_size'], max_trust_iters=s['max_trust_iters'], max_spg_iters=s['max_spg_iters'],
                                spg_use_nonmonotone=s['nonmonotone'])
    reported = []
    cb = lambda x, ob: reported.append(onp.array(x))
    try:
        with capture_stdout() as buf:
            o.update_precond(np.array(x0))
            if case['entry'] == 'minimize':
                xr, flag = SPG.bound_constrained_trust_region_minimize(o, np.array(x0), bounds, settings, callback=cb)
            else:
                xr, flag = SPG.solve(o, np.array(x0), p, np.array(lb), np.array(ub), settings, callback=cb, useWarmStart=False)
    except RuntimeError as e:
        if 'Cauchy point' in str(e):
            return Result(inconclusive='no-cauchy-point', classes=('cauchy-point-failure',))
        raise
    log = buf.getvalue()
    xr = onp.asarray(xr)
    fails = []
    data = dict(flag=bool(flag), nonmonotone=s['nonmonotone'], family=coef['family'])
    if reported and not onp.array_equal(reported[-1], xr):
        fails.append(Failure('returns-last', 'returned point differs from the last reported iterate', **data))
    seq = [x0] + reported
    allx = onp.array(seq + [xr])
    if not onp.all(onp.isfinite(allx)):
        fails.append(Failure('finite', 'a reported iterate is not finite', **data))
        return Result(fails, nontrivial=True)
    # iterates are formed as x + z with z accumulated: rounding is relative to the largest magnitude a coordinate had during
    # the solve (and the largest step), not to its current value
    hist = onp.abs(allx).max(axis=0)
    stepmax = max(s['tr_size'], onp.abs(onp.diff(allx, axis=0)).max() if len(allx) > 1 else 0.0)
    delta = 16 * EPS * (hist + stepmax)
    for k, x in enumerate(allx):
        over = onp.maximum(lb - x, x - ub)
        if (over > delta).any():
            i = int(onp.argmax(over - delta))
            fails.append(Failure('feasible', 'reported iterate %d violates the bounds of coordinate %d by %.3e (allowance %.1e, %s line search)'
                                 % (k, i, over[i], delta[i], 'non-monotone' if s['nonmonotone'] else 'monotone'), **data))
            break
    vals = [float(fv(np.array(x), p)) for x in seq]
    absv = [float(fabs(np.array(x), p)) for x in seq]
    for k in range(len(seq) - 1):
        bound = 64 * n * EPS * (absv[k] + absv[k + 1])
        if vals[k + 1] > vals[k] + bound:
            last = (k + 1 == len(seq) - 1) and bool(flag)
            fails.append(Failure('descent', 'objective rose from %.12g to %.12g between reported iterates %d and %d of %d'
                                 % (vals[k], vals[k + 1], k, k + 1, len(seq)), at_converged_exit=last, **data))
            break
    gr = onp.asarray(fg(np.array(xr), p))
    xc = onp.minimum(onp.maximum(xr, lb), ub)
    opt = onp.linalg.norm(onp.minimum(onp.maximum(xr - gr, lb), ub) - xr)
    if flag and not opt < tol * (1 + 1e-9):
        fails.append(Failure('honest-flag', 'success reported but the projected-gradient measure is %.6e >= tol %.6e' % (opt, tol), **data))
    classes = [coef['family'], 'nonmonotone' if s['nonmonotone'] else 'monotone', case['entry']]
    active = bool(onp.any((xr <= lb + 1e-12 * (1 + onp.abs(lb))) & onp.isfinite(lb)) or onp.any((xr >= ub - 1e-12 * (1 + onp.abs(ub))) & onp.isfinite(ub)))
    start_on_boundary = bool(onp.any(x0 == lb) or onp.any(x0 == ub))
    if active:
        classes.append('active-bound')
    if start_on_boundary:
        classes.append('start-on-boundary')
    if flag:
        classes.append('converged')
        if coef['family'] in obj.CONVEX and not fails:
            xs, kkt = reference_minimiser(n, coef, lb, ub, xr)
            H = onp.asarray(fh(np.array(xs), p))
            lam = onp.linalg.eigvalsh(0.5 * (H + H.T))
            if kkt < 1e-10 * (1 + opt0) and lam[0] > 0:
                classes.append('convex-reference')
                # error bound for strongly convex problems from the projected-gradient residual r: |x - x*| <= (1 + L)/m |r|,
                # with GLOBAL constants: m = smallest eigenvalue of the quadratic part, L = its largest + curvature of the other terms
                Hr = onp.asarray(fh(np.array(xr), p))
                m_glob = coef['lam_min']
                L_glob = max(coef['lam_max'], onp.linalg.eigvalsh(0.5 * (Hr + Hr.T))[-1], lam[-1]) * 4 + _softplus_curvature(n, coef)
                bound = 1.01 * (1 + L_glob) / m_glob * tol + 1e-9 * (1 + onp.linalg.norm(xs))
                if m_glob > 0 and coef['family'] != 'quartic' and onp.linalg.norm(xr - xs) > bound:
                    fails.append(Failure('convex-minimiser', 'returned point is %.3e from the bound-constrained minimiser (error bound %.1e)'
                                         % (onp.linalg.norm(xr - xs), bound), **data))
                elif coef['family'] == 'quartic' and onp.linalg.norm(xr - xs) > 1.01 * (1 + lam[-1] * 4 + 12 * abs(coef['design'][n * n]) * float(onp.abs(x0).max() + onp.abs(xs).max() + 1) ** 2) / m_glob * tol + 1e-9 * (1 + onp.linalg.norm(xs)):
                    fails.append(Failure('convex-minimiser', 'returned point is %.3e from the bound-constrained minimiser' % onp.linalg.norm(xr - xs), **data))
    elif 'still too small' in log:
        classes.append('exit-tr-too-small')
    else:
        classes.append('exit-max-iters')
    nacc = len(reported)
    return Result(fails, classes=classes, nontrivial=bool((active or start_on_boundary) and nacc >= 2))


SUBCHECKS = [
    Sub('projection', proj_cases, check_proj, quick=2000, thorough=30000, shards_quick=3, shards_thorough=4,
        required=('degenerate', 'free', 'one-sided', 'finite', 'outside-tr')),
    Sub('solver', solver_cases, check_solver, quick=150, thorough=1500, shards_quick=13, shards_thorough=12,
        required=('monotone', 'nonmonotone', 'active-bound', 'start-on-boundary', 'converged', 'convex-reference'), budget_quick=170, timeout=300),
]
