"""C03 - function space reproduces polynomials and integrates them exactly on any mesh."""
import math

import numpy as onp
from hypothesis import strategies as st

from vlib.core import Sub, Result, Failure
from vlib import gen

PROPERTY = 'C03'
RULE = ('Meshes: lattice (drawn diagonals, jitter, grading, anisotropic stretch <= 50, rotation, translation, cyclically rotated vertex '
        'triples, permuted numbering), Delaunay with holes, structured; element order 1-5 with and without bubble; triangle rule degree 1-10; '
        '1-D rule degree 0-25; cartesian and axisymmetric (r >= 0). For every monomial x^i y^j of the relevant degree (coordinates centred '
        'and scaled by the mesh size): partition of unity, interpolation values and gradients at the checker-computed physical quadrature '
        'points, exact integrals from a checker-side 10x10 conical-product Gauss rule, volume sum = polygon area, divergence theorem on the '
        'closed boundary (including holes) through FunctionSpace.integrate_function_on_edges and Surface.integrate_function_on_surface. '
        'Non-trivial: mesh with >= 2 distinct element shapes and a non-axis-aligned edge.')
ASSUMPTIONS = ['a rule of degree q integrates p*r exactly for deg p <= q-1 in axisymmetric mode (the 2 pi r weight counts towards the degree)',
               'tolerance 1e-10 relative to the field maximum on the mesh (coordinates are centred and scaled, so monomials are O(1))',
               'reference integrals: Gauss-Legendre conical product rule with 10x10 points (exact to degree 18), numpy only']


def ref_points_weights(n=10):
    """Conical product rule on the reference triangle (0,0),(1,0),(0,1)."""
    x, w = onp.polynomial.legendre.leggauss(n)
    x = 0.5 * (x + 1)
    w = 0.5 * w
    U, V = onp.meshgrid(x, x, indexing='ij')
    WU, WV = onp.meshgrid(w, w, indexing='ij')
    return onp.column_stack([U.ravel(), (V * (1 - U)).ravel()]), (WU * WV * (1 - U)).ravel()


REFP, REFW = ref_points_weights()


def integrate_exact(coords3, conns3, f):
    """sum over triangles of the integral of f(x, y) (vectorised callable), degree <= 18 exact."""
    a = coords3[conns3[:, 0]]
    b = coords3[conns3[:, 1]]
    c = coords3[conns3[:, 2]]
    J = (b[:, 0] - a[:, 0]) * (c[:, 1] - a[:, 1]) - (b[:, 1] - a[:, 1]) * (c[:, 0] - a[:, 0])
    P = a[:, None, :] + REFP[None, :, 0:1] * (b - a)[:, None, :] + REFP[None, :, 1:2] * (c - a)[:, None, :]
    vals = f(P[..., 0], P[..., 1])
    return float(onp.sum(vals * REFW[None, :] * J[:, None]))


def monomials(deg):
    return [(i, d - i) for d in range(deg + 1) for i in range(d + 1)]


@st.composite
def cases(draw):
    order = draw(st.sampled_from([1, 2, 3, 4, 5, 2, 3]))
    bubble = draw(st.booleans()) and order >= 2
    qdeg = draw(st.integers(1, 10))
    q1d = draw(st.integers(0, 25))
    axisym = draw(st.booleans())
    small = order >= 4
    # a few fixed array shapes dominate so that XLA kernels compiled for one case are reused by the next ones
    which = draw(st.integers(0, 5))
    if which <= 2:
        mesh = draw(gen.lattice_mesh(fixed=(2, 2) if (small or which == 0) else (3, 2)))
    elif which == 3:
        mesh = draw(gen.lattice_mesh(nx=(1, 2 if small else 3), ny=(1, 2 if small else 3)))
    elif which == 4:
        mesh = draw(gen.delaunay_mesh(n=(3, 3)))
    else:
        mesh = draw(gen.structured_mesh(n=(3, 3)))
    shift = draw(gen.floats(0.0, 3.0))
    return {'mesh': mesh, 'order': order, 'bubble': bubble, 'qdeg': qdeg, 'q1d': q1d, 'axisym': axisym, 'rshift': shift}


def check(case):
    import jax.numpy as np
    from optimism import FunctionSpace, QuadratureRule, Mesh, Surface
    desc = dict(case['mesh'])
    c1, t1 = gen.mesh_arrays(desc)
    if case['axisym']:
        # move the body to r >= 0 (keep it a lattice/Delaunay description with explicit coordinates)
        c1 = c1.copy()
        c1[:, 0] += -c1[:, 0].min() + case['rshift'] * (c1[:, 0].max() - c1[:, 0].min())
        desc = {'kind': 'explicit', 'coords': c1.tolist(), 'conns': t1.tolist()}
    mesh = gen.build_mesh(desc, order=case['order'], bubble=case['bubble'])
    order, qdeg = case['order'], case['qdeg']
    quad = QuadratureRule.create_quadrature_rule_on_triangle(qdeg)
    fs = FunctionSpace.construct_function_space(mesh, quad, 'axisymmetric' if case['axisym'] else 'cartesian')
    coords = onp.asarray(mesh.coords)
    conns = onp.asarray(mesh.conns)
    vn = onp.asarray(mesh.parentElement.vertexNodes)
    ref = onp.asarray(mesh.parentElement.coordinates)
    xc = c1.mean(axis=0)
    L = max(c1[:, 0].max() - c1[:, 0].min(), c1[:, 1].max() - c1[:, 1].min())
    hmin = math.sqrt(2 * onp.abs(gen._tri_areas(c1, t1)).min())
    what = '%s mesh, order %d%s, rule degree %d%s' % (case['mesh']['kind'], order, '+bubble' if case['bubble'] else '', qdeg,
                                                      ', axisymmetric' if case['axisym'] else '')
    fails = []
    shapes = onp.asarray(fs.shapes)
    grads = onp.asarray(fs.shapeGrads)
    vols = onp.asarray(fs.vols)
    if not (onp.all(onp.isfinite(shapes)) and onp.all(onp.isfinite(grads)) and onp.all(onp.isfinite(vols))):
        return Result(Failure('finite', '%s: non-finite shape data' % what), nontrivial=True)
    e1 = onp.abs(shapes.sum(axis=2) - 1).max()
    if e1 > 1e-11:
        fails.append(Failure('partition-of-unity', '%s: shape functions sum to 1 +- %.2e' % (what, e1)))
    e2 = onp.abs(grads.sum(axis=2)).max() * hmin
    if e2 > 1e-10:
        fails.append(Failure('gradient-sum', '%s: shape gradients sum to %.2e / h' % (what, e2)))
    # physical quadrature points: affine image of the rule's points
    xi = onp.asarray(quad.xigauss)
    A = onp.column_stack([ref[vn], onp.ones(3)])
    Xq = onp.zeros((conns.shape[0], xi.shape[0], 2))
    for e in range(conns.shape[0]):
        Mx = onp.linalg.solve(A, coords[conns[e, vn]])
        Xq[e] = onp.column_stack([xi, onp.ones(xi.shape[0])]) @ Mx
    s = lambda X: (X - xc) / L
    # interpolation of every monomial of degree <= order (all monomials as columns of one nodal field)
    sn = s(coords)
    sq = s(Xq)
    mons = monomials(order)
    U = onp.column_stack([sn[:, 0] ** i * sn[:, 1] ** j for i, j in mons])
    got = onp.asarray(FunctionSpace.interpolate_to_points(fs, np.array(U)))
    gg = onp.asarray(FunctionSpace.compute_field_gradient(fs, np.array(U)))
    for k, (i, j) in enumerate(mons):
        exact = sq[..., 0] ** i * sq[..., 1] ** j
        err = onp.abs(got[..., k] - exact).max()
        if err > 1e-10:
            fails.append(Failure('interpolation', '%s: x^%d y^%d interpolated with error %.2e at the quadrature points' % (what, i, j, err)))
            break
        gx = (i * sq[..., 0] ** max(i - 1, 0) * sq[..., 1] ** j if i > 0 else 0 * exact) / L
        gy = (j * sq[..., 0] ** i * sq[..., 1] ** max(j - 1, 0) if j > 0 else 0 * exact) / L
        err = max(onp.abs(gg[..., k, 0] - gx).max(), onp.abs(gg[..., k, 1] - gy).max()) * L
        if err > 1e-9 * L / hmin:
            fails.append(Failure('gradient', '%s: gradient of x^%d y^%d has error %.2e (times L)' % (what, i, j, err)))
            break
    # volumes
    area = float(onp.abs(gen._tri_areas(c1, t1)).sum())
    if case['axisym']:
        exactvol = integrate_exact(c1, t1, lambda x, y: 2 * math.pi * x)
    else:
        exactvol = area
    if qdeg >= (2 if case['axisym'] else 1) or not case['axisym']:
        if abs(vols.sum() - exactvol) > 1e-11 * abs(exactvol):
            fails.append(Failure('volume', '%s: quadrature volumes sum to %r, domain measure %r' % (what, float(vols.sum()), exactvol)))
    if onp.any(vols <= 0) and (not case['axisym'] or c1[:, 0].min() > 0):
        fails.append(Failure('volume', '%s: non-positive quadrature volume' % what))
    # exact integration through integrate_over_block
    maxdeg = qdeg - 1 if case['axisym'] else qdeg
    state = np.zeros((conns.shape[0], xi.shape[0], 1))
    U0 = np.zeros((coords.shape[0], 2))
    block = np.arange(conns.shape[0])
    mons = monomials(min(maxdeg, 10))
    if mons:
        import jax
        ij = np.array(onp.array(mons, dtype=float))
        f = lambda u, gu, q, x, e: ((x[0] - xc[0]) / L) ** e[0] * ((x[1] - xc[1]) / L) ** e[1]
        # the exponents travel in the slot the library hands through unchanged (dt); one vmapped call for all monomials
        gotall = onp.asarray(jax.vmap(lambda e: FunctionSpace.integrate_over_block(fs, U0, state, e, f, block))(ij))
        for k, (i, j) in enumerate(mons):
            if case['axisym']:
                ex = integrate_exact(c1, t1, lambda x, y: 2 * math.pi * x * ((x - xc[0]) / L) ** i * ((y - xc[1]) / L) ** j)
            else:
                ex = integrate_exact(c1, t1, lambda x, y: ((x - xc[0]) / L) ** i * ((y - xc[1]) / L) ** j)
            if not abs(gotall[k] - ex) <= 1e-10 * abs(exactvol):
                fails.append(Failure('integration', '%s: integral of x^%d y^%d is %r, exact %r (relative to the domain measure %.2e)'
                                     % (what, i, j, float(gotall[k]), ex, abs(gotall[k] - ex) / abs(exactvol))))
                break
    # divergence theorem on the closed boundary
    owners = {}
    for e, c in enumerate(t1):
        for sd in range(3):
            a, b = int(c[sd]), int(c[(sd + 1) % 3])
            owners.setdefault((min(a, b), max(a, b)), []).append((e, sd))
    bedges = onp.array([v[0] for v in owners.values() if len(v) == 1])
    q1 = QuadratureRule.create_quadrature_rule_1D(case['q1d'])
    d = min(case['q1d'], 8)
    a_, b_ = d, max(d - 1, 0)

    def Ffun(x, y):          # F = (sx^a, sy^b * sx)
        sx, sy = (x - xc[0]) / L, (y - xc[1]) / L
        return sx ** a_, sy ** b_ * sx if b_ + 1 <= d else sy ** b_
    divF = lambda x, y: (a_ * ((x - xc[0]) / L) ** max(a_ - 1, 0) if a_ > 0 else 0 * x) / L + \
        ((b_ * ((y - xc[1]) / L) ** max(b_ - 1, 0) * ((x - xc[0]) / L if b_ + 1 <= d else 1.0)) if b_ > 0 else 0 * x) / L
    exdiv = integrate_exact(c1, t1, divF)

    def flux(u, X, n):
        f0, f1 = Ffun(X[0], X[1])
        return f0 * n[0] + f1 * n[1]
    per = math.sqrt(area)
    # the routine is written for Cartesian integration of edge data; the axisymmetric function space shares it unchanged
    got = float(FunctionSpace.integrate_function_on_edges(fs, flux, U0, q1, np.array(bedges)))
    if abs(got - exdiv) > 1e-10 * per:
        fails.append(Failure('divergence-theorem', '%s, 1-D rule degree %d: boundary flux %r, integral of the divergence %r'
                             % (what, case['q1d'], got, exdiv)))
    if order == 1:
        got2 = float(Surface.integrate_function_on_surface(q1, np.array(bedges), mesh, lambda X, n: flux(None, X, n)))
        if abs(got2 - exdiv) > 1e-10 * per:
            fails.append(Failure('divergence-theorem', '%s (Surface.integrate_function_on_surface), 1-D rule degree %d: flux %r vs %r'
                                 % (what, case['q1d'], got2, exdiv)))
    classes = ['order%d' % order, 'bubble' if case['bubble'] else 'nobubble', 'q%d' % qdeg, 'axisym' if case['axisym'] else 'cartesian',
               case['mesh']['kind']]
    if case['mesh'].get('hole'):
        classes.append('hole')
    return Result(fails, classes=classes, nontrivial=gen.mesh_is_interesting(case['mesh']))


SUBCHECKS = [
    Sub('functionspace', cases, check, quick=28, thorough=1500, shards_quick=16, shards_thorough=16,
        required=('order1', 'order2', 'order3', 'order4', 'order5', 'bubble', 'axisym', 'cartesian', 'hole', 'lattice', 'delaunay'),
        budget_quick=170),
]
