"""C06 - trust-region sub-problem solvers: truncated CG, dogleg, exact eigenvalue-based solver."""
import math

import numpy as onp
from hypothesis import strategies as st

from vlib.core import Sub, Result, Failure, capture_stdout
from vlib import gen

PROPERTY = 'C06'
EPS = gen.EPS
RULE = ('H = Q diag(sigma) Q^T with spectrum classes (SPD, indefinite, singular, repeated, clustered; condition <= 1e6), n = 1..40, gradient '
        'generic / orthogonal to the lowest eigenspace / nearly so, radius = 10^[-6,6] * |g|/|H|, SPD preconditioner in {exact |H|^-1, '
        'diagonal, random SPD, identity}, both inner-product modes, cg_tol / inexact ratio / max_cg_iters (also below n). Oracles: step '
        'inside the region in the configured norm, model value <= min(0, model at the checker-computed Cauchy step), norm = radius when '
        'reported boundary / negative curvature, residual below the stated tolerance when reported interior; dogleg on the two-segment '
        'path and inside the region; treigen.solve against a checker-side eigen-decomposition + bracketed secular root with the hard '
        'case handled explicitly. Non-trivial: the returned step is not the unconstrained Newton step.')
ASSUMPTIONS = ['inputs are passed as JAX arrays (the CG routine updates its residual argument in place)',
               'the boundary norm comes from recurrences and is required to 1e-5 relative (see DESIGN.md section 5, C06)',
               'treigen (no iteration cap): a case that does not return within 15 s is re-run once with 45 s; a second timeout is a violation']

SPECTRA = ('spd', 'indefinite', 'singular', 'repeated', 'clustered', 'negdef')


@st.composite
def matrix(draw, nmax=40):
    n = draw(st.sampled_from([1, 2, 3, 4, 5, 8, 13, 20, 40]))
    n = min(n, nmax)
    cls = draw(st.sampled_from(SPECTRA))
    condexp = draw(gen.floats(0.0, 6.0))
    u = onp.array(sorted(draw(st.lists(gen.floats(0.0, 1.0), min_size=n, max_size=n))))
    sig = 10.0 ** (-condexp * u)
    if cls == 'indefinite':
        k = draw(st.integers(1, max(1, n // 2)))
        sig[:k] *= -1
    elif cls == 'singular':
        sig[0] = 0.0
    elif cls == 'repeated' and n > 1:
        sig[1] = sig[0]
        if draw(st.booleans()):
            sig[:2] *= -1
    elif cls == 'clustered':
        sig = 1.0 + 1e-6 * (u - 0.5)
    elif cls == 'negdef':
        sig = -sig
    sig = onp.sort(sig * draw(gen.logfloat(-2, 2)))
    G = onp.array(draw(st.lists(gen.floats(-1, 1), min_size=n * n, max_size=n * n))).reshape(n, n)
    Q, _ = onp.linalg.qr(G + 3 * onp.eye(n))
    if draw(st.booleans()) and n <= 8:
        Q = onp.eye(n)[:, list(draw(st.permutations(list(range(n)))))]
    return {'n': n, 'cls': cls, 'sigma': sig.tolist(), 'Q': Q.tolist()}


@st.composite
def cg_cases(draw):
    m = draw(matrix())
    n = m['n']
    gk = draw(st.sampled_from(['generic', 'generic', 'orth_lowest', 'near_orth']))
    c = onp.array(draw(st.lists(gen.floats(-1, 1), min_size=n, max_size=n)))
    if onp.abs(c).max() < 1e-3:
        c = c + 1.0
    if gk != 'generic' and n > 1:
        c[0] = 0.0 if gk == 'orth_lowest' else 1e-10 * c[0]
        if onp.abs(c[1:]).max() < 1e-3:
            c[1] = 1.0
    gmag = draw(gen.logfloat(-3, 3))
    rad = draw(gen.logfloat(-6, 6))
    pk = draw(st.sampled_from(['exact', 'diag', 'random', 'identity']))
    pseed = draw(st.lists(gen.floats(0.1, 1.0), min_size=n, max_size=n))
    return {'mat': m, 'gkind': gk, 'c': (c * gmag).tolist(), 'rad': rad, 'pkind': pk, 'pseed': pseed,
            'precnorm': draw(st.booleans()), 'ratio': draw(st.sampled_from([1e-5, 1e-3, 1e-8, 1e-5])),
            'cgtol_rel': draw(st.sampled_from([1e-12, 1e-6])), 'max_cg': draw(st.sampled_from([1, 2, 5, 50, 200]))}


def _problem(case):
    m = case['mat']
    Q = onp.array(m['Q'])
    sig = onp.array(m['sigma'])
    H = (Q * sig) @ Q.T
    H = 0.5 * (H + H.T)
    g = Q @ onp.array(case['c'])
    return H, g, Q, sig


def _precond(case, H, Q, sig):
    n = H.shape[0]
    pk = case['pkind']
    if pk == 'identity':
        return onp.eye(n)
    if pk == 'exact':
        a = onp.maximum(onp.abs(sig), 1e-6 * (onp.abs(sig).max() or 1.0))
        P = (Q / a) @ Q.T
    elif pk == 'diag':
        d = onp.maximum(onp.abs(onp.diag(H)), 1e-3 * (onp.abs(H).max() or 1.0))
        P = onp.diag(1.0 / d)
    else:
        s = onp.array(case['pseed'])
        Rm = onp.array(case['mat']['Q'])[::-1, :]
        P = (Rm * (s / (onp.abs(sig).max() or 1.0))) @ Rm.T
    return 0.5 * (P + P.T)


def check_cg(case):
    import jax.numpy as np
    from optimism import EquationSolver as ES
    H, g, Q, sig = _problem(case)
    n = H.shape[0]
    P = _precond(case, H, Q, sig)
    M = onp.linalg.inv(P)
    M = 0.5 * (M + M.T)
    gn = onp.linalg.norm(g)
    Hn = onp.abs(sig).max() or 1.0
    Delta = case['rad'] * gn / Hn
    settings = ES.get_settings(cg_tol=case['cgtol_rel'] * gn, cg_inexact_solve_ratio=case['ratio'], max_cg_iters=case['max_cg'],
                               use_preconditioned_inner_product_for_cg=case['precnorm'])
    Hj, Pj = np.array(H), np.array(P)
    z, cp, stype, iters = ES.solve_trust_region_minimization(np.zeros(n), np.array(g), lambda v: Hj @ v, lambda v: Pj @ v, Delta, settings)
    z = onp.asarray(z)
    N = M if case['precnorm'] else onp.eye(n)
    nrm = lambda v: math.sqrt(max(float(v @ N @ v), 0.0))
    model = lambda v: float(g @ v + 0.5 * v @ H @ v)
    fails = []
    data = dict(stype=stype, iters=int(iters))
    if not onp.all(onp.isfinite(z)):
        return Result(Failure('finite', 'step contains non-finite entries (type %s)' % stype, **data), nontrivial=True)
    zn = nrm(z)
    if zn > Delta * (1 + 1e-5):
        fails.append(Failure('inside-region', 'step norm %.9g exceeds the radius %.9g in the %s norm (type %s, %d iterations)'
                             % (zn, Delta, 'preconditioned' if case['precnorm'] else 'Euclidean', stype, iters), **data))
    # Cauchy step along -P g inside the region (configured norm)
    d = -P @ g
    dHd = float(d @ H @ d)
    # |d|_M^2 = d^T P^-1 d = g^T P g for d = -P g: no inverse of the (possibly ill-conditioned) preconditioner involved
    dn = math.sqrt(max(float(g @ P @ g), 0.0)) if case['precnorm'] else nrm(d)
    tmax = Delta / dn
    tstar = tmax if dHd <= 0 else min(tmax, float(-(g @ d)) / dHd)
    zc = tstar * d
    mc = model(zc)
    mz = model(z)
    # the radius of the reference Cauchy step is measured with M = inv(P): its relative accuracy is eps * cond(P)
    slack = 1e-9 + (100 * EPS * float(onp.linalg.cond(P)) if case['precnorm'] else 0.0)
    # rounding of the model evaluation itself: |g|.|v| + |v|^T |H| |v| / 2 can exceed |m(v)| by many orders when v has a large
    # component along a (near-)null direction of H
    rnd = lambda v: 8 * n * EPS * (float(onp.abs(g) @ onp.abs(v)) + 0.5 * float(onp.abs(v) @ onp.abs(H) @ onp.abs(v)))
    if mz > min(0.0, mc) + slack * (abs(float(g @ zc)) + 0.5 * abs(float(zc @ H @ zc))) + 1e-13 * abs(mc) + rnd(z) + rnd(zc):
        fails.append(Failure('cauchy-decrease', 'model value %.9g at the step, %.9g at the Cauchy step (type %s, %d iterations)' % (mz, mc, stype, iters), **data))
    if stype in (ES.boundaryString, ES.negCurveString):
        if abs(zn - Delta) > 1e-5 * Delta:
            fails.append(Failure('on-boundary', "step reported '%s' but its norm / radius = %.9g" % (stype, zn / Delta), **data))
    elif stype == ES.interiorString:
        res = onp.linalg.norm(H @ z + g)
        tol = max(settings.cg_tol, settings.cg_inexact_solve_ratio * gn)
        if res > tol * (1 + 1e-6) + 200 * EPS * (Hn * onp.linalg.norm(z) + gn) * n:
            fails.append(Failure('interior-residual', "step reported 'interior' but |H z + g| = %.3e > tolerance %.3e" % (res, tol), **data))
    elif stype != ES.interiorString + '_':
        fails.append(Failure('step-type', 'unknown step type %r' % (stype,), **data))
    classes = [stype, case['mat']['cls'], 'P-' + case['pkind'], 'precnorm' if case['precnorm'] else 'euclid', 'g-' + case['gkind']]
    newton = stype == ES.interiorString and n > 0
    return Result(fails, classes=classes, nontrivial=not newton or case['pkind'] != 'exact')


# ---------------------------------------------------------------------------------------------------
# dogleg
# ---------------------------------------------------------------------------------------------------

@st.composite
def dogleg_cases(draw):
    n = draw(st.integers(1, 8))
    m = draw(matrix(nmax=8))
    n = m['n']
    cp = draw(st.lists(gen.floats(-1, 1), min_size=n, max_size=n))
    nw = draw(st.lists(gen.floats(-1, 1), min_size=n, max_size=n))
    rel = draw(st.sampled_from(['free', 'newton_longer', 'cp_longer', 'collinear']))
    s1 = draw(gen.logfloat(-3, 3))
    s2 = draw(gen.logfloat(-3, 3))
    rad = draw(gen.logfloat(-3, 3))
    return {'mat': m, 'cp': cp, 'nw': nw, 'rel': rel, 's1': s1, 's2': s2, 'rad': rad}


def check_dogleg(case):
    import jax.numpy as np
    from optimism import EquationSolver as ES
    m = case['mat']
    Q = onp.array(m['Q'])
    sig = onp.abs(onp.array(m['sigma'])) + 1e-3 * onp.abs(m['sigma']).max() + 1e-300
    Mm = (Q * sig) @ Q.T
    Mm = 0.5 * (Mm + Mm.T)
    cp = onp.array(case['cp'])
    nw = onp.array(case['nw'])
    if onp.abs(cp).max() < 1e-3:
        cp = cp + 1.0
    if onp.abs(nw).max() < 1e-3:
        nw = nw - 1.0
    cp = cp * case['s1']
    nw = nw * case['s2']
    nrm = lambda v: math.sqrt(float(v @ Mm @ v))
    if case['rel'] == 'newton_longer':
        nw = nw * (2.0 * nrm(cp) / nrm(nw))
    elif case['rel'] == 'cp_longer':
        nw = nw * (0.5 * nrm(cp) / nrm(nw))
    elif case['rel'] == 'collinear':
        nw = cp * 3.0
    Delta = case['rad'] * nrm(cp)
    Mj = np.array(Mm)
    with capture_stdout():
        s = onp.asarray(ES.dogleg_step(np.array(cp), np.array(nw), Delta, lambda v: Mj @ v))
    fails = []
    sn = nrm(s)
    if not onp.all(onp.isfinite(s)):
        return Result(Failure('finite', 'dogleg step non-finite'), nontrivial=True)
    if sn > Delta * (1 + 1e-9):
        fails.append(Failure('dogleg-inside', 'dogleg step norm %.9g exceeds the radius %.9g' % (sn, Delta)))
    # on [0,cp] or [cp,newton]
    scale = max(nrm(cp), nrm(nw))
    t1 = float(s @ Mm @ cp) / float(cp @ Mm @ cp)
    on1 = nrm(s - t1 * cp) <= 1e-10 * scale and -1e-12 <= t1 <= 1 + 1e-12
    dd = nw - cp
    if nrm(dd) > 0:
        t2 = float((s - cp) @ Mm @ dd) / float(dd @ Mm @ dd)
        on2 = nrm(s - cp - t2 * dd) <= 1e-10 * scale and -1e-12 <= t2 <= 1 + 1e-12
    else:
        on2 = False
    if not (on1 or on2):
        fails.append(Failure('dogleg-path', 'dogleg step is not on the path origin -> Cauchy point -> quasi-Newton point'))
    which = 'cauchy-scaled' if on1 and t1 < 1 - 1e-12 else ('leg' if on2 and 1e-12 < t2 < 1 - 1e-12 else 'endpoint')
    return Result(fails, classes=[which, case['rel']], nontrivial=which != 'endpoint')


# ---------------------------------------------------------------------------------------------------
# exact solver
# ---------------------------------------------------------------------------------------------------

@st.composite
def treigen_cases(draw):
    m = draw(matrix(nmax=13))
    n = m['n']
    gk = draw(st.sampled_from(['generic', 'orth_lowest', 'near_orth', 'near_orth', 'generic']))
    c = onp.array(draw(st.lists(gen.floats(-1, 1), min_size=n, max_size=n)))
    if onp.abs(c).max() < 1e-3:
        c = c + 1.0
    nearexp = draw(st.integers(-16, -4))
    if gk != 'generic' and n > 1:
        sig = onp.array(m['sigma'])
        low = onp.abs(sig - sig[0]) <= 1e-12 * max(1.0, onp.abs(sig).max())
        c[low] = 0.0 if gk == 'orth_lowest' else c[low] * 10.0 ** nearexp
        if onp.abs(c[~low]).max() < 1e-3 if (~low).any() else True:
            if (~low).any():
                c[onp.flatnonzero(~low)[0]] = 1.0
    gmag = draw(gen.logfloat(-3, 3))
    rad = draw(gen.logfloat(-6, 6))
    return {'mat': m, 'gkind': gk, 'c': (c * gmag).tolist(), 'rad': rad}


def tr_reference(sig, c, Delta):
    """Global minimum value of g.s + s.H s/2 over |s| <= Delta in the eigenbasis (c = Q^T g), with the hard case."""
    from scipy.optimize import brentq
    sig = onp.asarray(sig, dtype=float)
    c = onp.asarray(c, dtype=float)
    s0 = sig[0]
    mval = lambda y: float(c @ y + 0.5 * (sig * y) @ y)
    if s0 > 0:
        y = -c / sig
        if onp.linalg.norm(y) <= Delta:
            return mval(y), 'interior'
    lowest = onp.abs(sig - s0) <= 1e-14 * max(onp.abs(sig).max(), 1e-300)
    lam_lo = max(0.0, -s0)
    pn = lambda lam: onp.linalg.norm(c[~lowest] / (sig[~lowest] + lam)) if (~lowest).any() else 0.0
    if onp.abs(c[lowest]).max() == 0.0:
        # possible hard case: check the norm at lam = -s0
        if (~lowest).any():
            p_at = pn(lam_lo) if lam_lo + (sig[~lowest]).min() > 0 else onp.inf
        else:
            p_at = 0.0
        if p_at <= Delta:
            y = onp.zeros_like(c)
            if (~lowest).any():
                y[~lowest] = -c[~lowest] / (sig[~lowest] + lam_lo)
            tau = math.sqrt(max(Delta ** 2 - float(y @ y), 0.0))
            y[onp.flatnonzero(lowest)[0]] = tau
            return mval(y), 'hard'
    # secular equation in the shifted multiplier mu = lam + s0 (no cancellation in sig + lam near the hard case)
    sh = sig - s0
    mu_lo = max(0.0, s0)              # lam >= 0  <=>  mu >= s0
    f = lambda mu: onp.linalg.norm(c / (sh + mu)) - Delta
    scale = max(onp.abs(sig).max(), 1e-300)
    lo = mu_lo + 1e-300 if mu_lo > 0 else 1e-30 * scale
    k = 0
    while not f(lo) > 0 and k < 400 and mu_lo == 0.0:
        lo *= 1e-1
        k += 1
    if not f(lo) > 0:
        if mu_lo > 0:                 # lam = 0 already inside: handled above as interior unless on the boundary exactly
            y = -c / sig
            return mval(y), 'interior'
        y = -c / (sh + lo)
        y *= Delta / onp.linalg.norm(y)
        return mval(y), 'boundary-degenerate'
    hi = max(mu_lo, lo) + onp.linalg.norm(c) / Delta + scale
    while f(hi) > 0:
        hi *= 2
    mu = brentq(f, lo, hi, xtol=1e-300, rtol=4 * EPS, maxiter=2000)
    y = -c / (sh + mu)
    y *= min(1.0, Delta / onp.linalg.norm(y))
    return mval(y), 'boundary'


def check_treigen(case):
    import jax.numpy as np
    from optimism.treigen import treigen
    H, g, Q, sig = _problem(case)
    gn = onp.linalg.norm(g)
    Hn = onp.abs(sig).max() or 1.0
    Delta = case['rad'] * gn / Hn
    s = onp.asarray(treigen.solve(np.array(H), np.array(g), Delta))
    fails = []
    if not onp.all(onp.isfinite(s)):
        return Result(Failure('finite', 'treigen.solve returned non-finite entries (%s, gradient %s)' % (case['mat']['cls'], case['gkind'])), nontrivial=True)
    sn = onp.linalg.norm(s)
    if sn > Delta * (1 + 1e-8):
        fails.append(Failure('inside-region', 'treigen step norm / radius = %.12g' % (sn / Delta)))
    w, V = onp.linalg.eigh(H)
    mstar, kind = tr_reference(w, V.T @ g, Delta)
    ms = float(g @ s + 0.5 * s @ H @ s)
    if ms > mstar + 1e-7 * (abs(mstar) + gn * Delta):
        fails.append(Failure('global-minimiser', 'treigen model value %.12g, global minimum over the ball %.12g (%s, %s, gradient %s)'
                             % (ms, mstar, kind, case['mat']['cls'], case['gkind'])))
    return Result(fails, classes=[kind, case['mat']['cls'], 'g-' + case['gkind']], nontrivial=kind != 'interior')


SUBCHECKS = [
    Sub('cg', cg_cases, check_cg, quick=1200, thorough=15000, shards_quick=8, shards_thorough=8,
        required=('boundary', 'neg curve', 'interior', 'interior_', 'precnorm', 'euclid', 'P-exact', 'P-identity', 'indefinite', 'singular')),
    Sub('dogleg', dogleg_cases, check_dogleg, quick=1500, thorough=15000, shards_quick=2, shards_thorough=2,
        required=('cauchy-scaled', 'leg', 'endpoint')),
    Sub('treigen', treigen_cases, check_treigen, quick=1000, thorough=10000, shards_quick=6, shards_thorough=6, timeout=15.0, timeout_is_violation=True,
        required=('hard', 'boundary', 'interior')),
]
