"""C02 - assembled stiffness equals the Hessian of the total energy; block splitting is neutral."""
import math

import numpy as onp
from hypothesis import strategies as st

from vlib.core import Sub, Result, Failure, capture_stdout
from vlib import gen
from vlib import materials as mats

PROPERTY = 'C02'
EPS = gen.EPS
RULE = ('Fixed-shape unstructured meshes (2x2 and 3x2 lattices with drawn diagonals, jitter, grading, affine map, rotated vertex triples, '
        'permuted numbering; shifted to r >= 0.2 for axisymmetry), element order 1-2 (3 in the thorough tier), material in {linear elastic, '
        'neo-Hookean x2, Gent, J2 small / large, viscoelastic}, internal state virgin or evolved by 1-2 load steps through '
        'compute_updated_internal_variables, smooth displacement field scaled so that elements stay uninverted, arbitrary essential-BC '
        'subset, plane strain / axisymmetric, pressureProjectionDegree None / 0 / 1, factories create_mechanics_functions, '
        'create_multi_block_mechanics_functions (random 2-4 way block partition with interleaved element ids) and create_dynamics_functions '
        '(beta, dt, density and predictor drawn). Oracle: assemble_sparse_stiffness_matrix(element stiffnesses) vs the unknown x unknown block '
        'of jax.hessian of the energy w.r.t. the full nodal field; symmetry; single- vs multi-block equality. Non-trivial: non-zero '
        'displacement with at least one constrained and one unconstrained dof (and evolved state for path-dependent models).')
ASSUMPTIONS = ['jax.hessian of the library energy is the reference second derivative (AD of the energy as a whole vs the element-wise assembly path)',
               'single-block / dynamics factories are called inside one compiled function per (factory, material, option, mesh shape) with traced coordinates and constants; pressure-projection and multi-block factories are built eagerly per case (they need concrete values)',
               'tolerance max|K-H| <= 1e-9 max|H|, symmetry 1e-9 relative, block split 1e-12 relative']

_C = {}


def get_fns(key):
    """key = (factory, model name, mode, proj, order, qdeg).  The FunctionSpace is rebuilt inside the compiled function from the
    (traced) coordinates and connectivity with a static parent element and quadrature rule, as the library's own shape-sensitivity
    code does, so one compilation serves every mesh of the same shape."""
    if key not in _C:
        import jax
        import jax.numpy as np
        from optimism import Mechanics, Mesh, FunctionSpace, QuadratureRule, Interpolants
        factory, name, mode, proj, order, qdeg = key
        cfg = mats.CONFIGS[name]
        pe, pe1 = Interpolants.make_parent_elements(order)
        quad = QuadratureRule.create_quadrature_rule_on_triangle(qdeg)
        shapeOnRef = Interpolants.compute_shapes(pe, quad.xigauss)
        mode2D = 'axisymmetric' if mode == 'axisymmetric' else 'cartesian'

        def mkfs(coords, conns, blocks):
            mesh = Mesh.Mesh(coords, conns, None, pe, pe1, blocks, None, None)
            return FunctionSpace.construct_function_space_from_parent_element(mesh, shapeOnRef, quad, mode2D)

        def mk(fs, pv, hetero=False):
            model = mats.make_model(cfg, pv)
            if factory == 'single':
                return Mechanics.create_mechanics_functions(fs, mode, model, pressureProjectionDegree=proj)
            models = {k: model for k in fs.mesh.blocks}
            if hetero:
                # different constants per block (same constitutive family): block b gets its first modulus scaled by 1 + b
                for b, k in enumerate(sorted(fs.mesh.blocks)):
                    pvb = [float(v) for v in pv]
                    pvb[0] *= 1.0 + b
                    models[k] = mats.make_model(cfg, pvb)
            return Mechanics.create_multi_block_mechanics_functions(fs, mode, models, pressureProjectionDegree=proj)

        @jax.jit
        def hess(coords, conns, blocks, U, state, dt, pv):
            mf = mk(mkfs(coords, conns, blocks), pv)
            return mf.compute_strain_energy(U, state, dt), jax.hessian(lambda u: mf.compute_strain_energy(u, state, dt))(U)

        @jax.jit
        def stiff(coords, conns, blocks, U, state, dt, pv):
            return mk(mkfs(coords, conns, blocks), pv).compute_element_stiffnesses(U, state, dt)

        @jax.jit
        def update(coords, conns, blocks, U, state, dt, pv):
            return mk(mkfs(coords, conns, blocks), pv).compute_updated_internal_variables(U, state, dt)

        def init(coords, conns, blocks, pv):
            return mk(mkfs(coords, conns, blocks), pv).compute_initial_state()

        @jax.jit
        def dyn(coords, conns, blocks, U, Up, state, dt, pv, beta, rho):
            model = mats.make_model(cfg, pv)._replace(density=rho)
            fs = mkfs(coords, conns, blocks)
            df = Mechanics.create_dynamics_functions(fs, mode, model, Mechanics.NewmarkParameters(gamma=0.5, beta=beta), pressureProjectionDegree=proj)
            E = df.compute_algorithmic_energy(U, Up, state, dt)
            H = jax.hessian(lambda u: df.compute_algorithmic_energy(u, Up, state, dt))(U)
            return E, H, df.compute_element_hessians(U, Up, state, dt)
        if proj is not None or factory == 'multi':
            # The pressure-projection factories build their projection shape functions with Python/numpy control flow at
            # construction time and cannot be constructed under a trace; the multi-block factory is given concrete block element ids
            # (as every caller does).  Both are built eagerly per case and compiled per case.
            def hess(coords, conns, blocks, U, state, dt, pv, hetero=False):
                mf = mk(mkfs(coords, conns, blocks), [float(v) for v in pv], hetero)
                e = lambda u: mf.compute_strain_energy(u, state, dt)
                return e(U), jax.jit(jax.hessian(e))(U)

            def stiff(coords, conns, blocks, U, state, dt, pv, hetero=False):
                return mk(mkfs(coords, conns, blocks), [float(v) for v in pv], hetero).compute_element_stiffnesses(U, state, dt)

            def update(coords, conns, blocks, U, state, dt, pv, hetero=False):
                return mk(mkfs(coords, conns, blocks), [float(v) for v in pv], hetero).compute_updated_internal_variables(U, state, dt)

            def dyn(coords, conns, blocks, U, Up, state, dt, pv, beta, rho):
                model = mats.make_model(cfg, [float(v) for v in pv])._replace(density=rho)
                fs = mkfs(coords, conns, blocks)
                df = Mechanics.create_dynamics_functions(fs, mode, model, Mechanics.NewmarkParameters(gamma=0.5, beta=beta), pressureProjectionDegree=proj)
                e = lambda u: df.compute_algorithmic_energy(u, Up, state, dt)
                return e(U), jax.jit(jax.hessian(e))(U), df.compute_element_hessians(U, Up, state, dt)
        _C[key] = dict(hess=hess, stiff=stiff, update=update, init=init, dyn=dyn)
    return _C[key]


def make_cases(cells, factory):
    @st.composite
    def cases(draw):
        name, mode, proj, order = cells[draw(st.integers(0, len(cells) - 1))]
        cfg = mats.CONFIGS[name]
        pr = draw(mats.properties(cfg))
        shape = [(2, 2), (3, 2)][draw(st.integers(0, 1))] if (order == 1 and cfg.state == 'none' and factory == 'single' and proj is None) else (2, 2)
        mesh = draw(gen.lattice_mesh(fixed=shape))
        coords, conns = gen.mesh_arrays(mesh)
        nv = coords.shape[0]
        amp = draw(gen.logfloat(-4, 0)) * 0.15
        ucoef = draw(st.lists(gen.floats(-1, 1), min_size=12, max_size=12))
        nsteps = draw(st.integers(0, 2)) if cfg.state != 'none' else 0
        nbc = draw(st.integers(1, 3))
        bcs = [{'frac': draw(gen.floats(0.1, 0.6)), 'comp': draw(st.integers(0, 1)), 'seed': draw(st.integers(0, 10 ** 6))} for _ in range(nbc)]
        nblocks = draw(st.integers(2, 4))
        bseed = draw(st.integers(0, 10 ** 6))
        dynp = {'beta': draw(gen.floats(0.25, 0.5)), 'dt': draw(gen.logfloat(-3, 0)), 'rho': draw(gen.logfloat(-2, 2)),
                'pred': draw(gen.floats(-1, 1))}
        return {'factory': factory, 'model': name, 'mode': mode, 'proj': proj, 'order': order, 'props': pr, 'mesh': mesh, 'amp': amp,
                'ucoef': ucoef, 'nsteps': nsteps, 'bcs': bcs, 'nblocks': nblocks, 'bseed': bseed, 'dyn': dynp,
                'dtrel': draw(gen.logfloat(-2, 2)), 'rshift': draw(gen.floats(0.2, 2.0)), 'hetero': draw(st.booleans())}
    return cases


def smooth_field(coords, c, amp):
    x = (coords - coords.mean(axis=0)) / max(onp.ptp(coords, axis=0).max(), 1e-300)
    X, Y = x[:, 0], x[:, 1]
    basis = onp.column_stack([X, Y, X * Y, X * X - Y * Y, onp.sin(2 * X + Y), onp.cos(X - 2 * Y)])
    L = onp.ptp(coords, axis=0).max()
    return amp * L * onp.column_stack([basis @ onp.array(c[:6]), basis @ onp.array(c[6:])]) / 3.0


def pick_nodes(nn, frac, seed):
    rng = onp.random.RandomState(seed)            # deterministic function of the drawn seed (part of the case)
    k = max(1, int(round(frac * nn)))
    return onp.sort(rng.permutation(nn)[:k])


def check(case):
    import jax.numpy as np
    from optimism import FunctionSpace, QuadratureRule, SparseMatrixAssembler, Mesh
    cfg = mats.CONFIGS[case['model']]
    pr = case['props']
    pv = np.array(pr['pvec'])
    desc = dict(case['mesh'])
    c1, t1 = gen.mesh_arrays(desc)
    if case['mode'] == 'axisymmetric':
        c1 = c1.copy()
        c1[:, 0] += -c1[:, 0].min() + case['rshift'] * onp.ptp(c1[:, 0])
        desc = {'kind': 'explicit', 'coords': c1.tolist(), 'conns': t1.tolist()}
    ne = t1.shape[0]
    blocks = None
    if case['factory'] == 'multi':
        rng = onp.random.RandomState(case['bseed'])
        lab = rng.randint(0, case['nblocks'], size=ne)
        lab[:case['nblocks']] = onp.arange(case['nblocks'])[:ne]
        blocks = {'blk%d' % b: np.array(onp.flatnonzero(lab == b)) for b in range(case['nblocks']) if (lab == b).any()}
    mesh = gen.build_mesh(desc, order=case['order'], blocks=blocks)
    coords = onp.asarray(mesh.coords)
    nn = coords.shape[0]
    nodeSets = {'bc%d' % i: np.array(pick_nodes(nn, b['frac'], b['seed'])) for i, b in enumerate(case['bcs'])}
    mesh = Mesh.mesh_with_nodesets(mesh, nodeSets)
    qdeg = 2 * case['order'] if cfg.family != 'linear-elastic' else 2 * (case['order'] - 1) + 1
    quad = QuadratureRule.create_quadrature_rule_on_triangle(max(qdeg, 1))
    fs = FunctionSpace.construct_function_space(mesh, quad, 'axisymmetric' if case['mode'] == 'axisymmetric' else 'cartesian')
    ebcs = [FunctionSpace.EssentialBC(nodeSet='bc%d' % i, component=b['comp']) for i, b in enumerate(case['bcs'])]
    dm = FunctionSpace.DofManager(fs, 2, ebcs)
    key = (case['factory'] if case['factory'] != 'dynamics' else 'single', case['model'], case['mode'], case['proj'], case['order'], max(qdeg, 1))
    F = get_fns(key)
    U = smooth_field(coords, case['ucoef'], case['amp'])
    # the generated field must not invert an element (on strongly skewed coarse meshes the interpolant of a smooth field can):
    # keep the displacement gradient of every vertex triangle below 0.3 in max norm
    Uv = smooth_field(c1, case['ucoef'], case['amp'])
    gmax = 0.0
    for tri in t1:
        dX = (c1[tri[1:]] - c1[tri[0]]).T
        dU = (Uv[tri[1:]] - Uv[tri[0]]).T
        gmax = max(gmax, float(onp.abs(dU @ onp.linalg.inv(dX)).max()))
    U = U * min(1.0, 0.3 / max(gmax, 1e-300))
    if case['mode'] == 'axisymmetric':
        # the hoop stretch 1 + u_r / r must stay positive (the field is scaled with the mesh extent, which on slender
        # meshes exceeds the radius): keep |u_r| <= 0.3 r_min
        U = U * min(1.0, 0.3 * coords[:, 0].min() / max(onp.abs(U[:, 0]).max(), 1e-300))
    tau = min(pr['taus'])
    dt = case['dtrel'] * tau
    what = '%s, %s, %s, projection %s, order %d' % (case['factory'], case['model'], case['mode'], case['proj'], case['order'])
    fails = []
    geo = (mesh.coords, mesh.conns, mesh.blocks)
    with capture_stdout():
        state = onp.asarray(F['init'](*geo, pv))
        evolved = False
        for k in range(case['nsteps']):
            Uk = U * (k + 1) / (case['nsteps'] + 1) * (2.0 if cfg.family == 'j2' else 1.0)
            state = onp.asarray(F['update'](*geo, np.array(Uk), np.array(state), dt, pv))
            evolved = True
        if not onp.all(onp.isfinite(state)):
            return Result(inconclusive='state-nonfinite')
        isunk = onp.asarray(dm.isUnknown).ravel()
        if case['factory'] == 'dynamics':
            d = case['dyn']
            Up = U * d['pred']
            E, H, Ke = F['dyn'](*geo, np.array(U), np.array(Up), np.array(state), d['dt'], pv, d['beta'], d['rho'])
        else:
            het = {'hetero': True} if (case['factory'] == 'multi' and case.get('hetero')) else {}
            E, H = F['hess'](*geo, np.array(U), np.array(state), dt, pv, **het)
            Ke = F['stiff'](*geo, np.array(U), np.array(state), dt, pv, **het)
    K = SparseMatrixAssembler.assemble_sparse_stiffness_matrix(Ke, mesh.conns, dm).toarray()
    H = onp.asarray(H).reshape(2 * nn, 2 * nn)[onp.ix_(isunk, isunk)]
    if not (onp.isfinite(float(E)) and onp.all(onp.isfinite(H)) and onp.all(onp.isfinite(K))):
        return Result(Failure('finite', '%s: energy / Hessian / stiffness not finite' % what), nontrivial=True)
    hmax = onp.abs(H).max()
    if K.shape != H.shape:
        fails.append(Failure('shape', '%s: assembled matrix %r, Hessian block %r' % (what, K.shape, H.shape)))
    else:
        err = onp.abs(K - H).max()
        if err > 1e-9 * hmax:
            fails.append(Failure('stiffness-vs-hessian', '%s: max|K - H| = %.3e max|H| (state %s)' % (what, err / hmax, 'evolved' if evolved else 'virgin')))
        asym = onp.abs(K - K.T).max()
        # plastic models differentiate through an iterative root solve: symmetric only to the accuracy of that solve (same bound as K - H)
        if asym > 1e-9 * onp.abs(K).max():
            fails.append(Failure('symmetry', '%s: max|K - K^T| = %.3e max|K|' % (what, asym / onp.abs(K).max())))
    if case['factory'] == 'multi' and not case.get('hetero') and not fails:
        S = get_fns(('single', case['model'], case['mode'], case['proj'], case['order'], max(qdeg, 1)))
        with capture_stdout():
            E1, H1 = S['hess'](*geo, np.array(U), np.array(state), dt, pv)
            K1 = onp.asarray(S['stiff'](*geo, np.array(U), np.array(state), dt, pv))
            s1 = onp.asarray(S['update'](*geo, np.array(U), np.array(state), dt, pv))
            sm = onp.asarray(F['update'](*geo, np.array(U), np.array(state), dt, pv))
        area = float(onp.abs(gen._tri_areas(c1, t1)).sum())
        if abs(float(E) - float(E1)) > 1e-12 * abs(float(E1)) + 200 * EPS * pr['stiff'] * area * (2 * onp.pi * c1[:, 0].max() if case['mode'] == 'axisymmetric' else 1.0):
            fails.append(Failure('block-split-energy', '%s: energy %.15g with %d blocks, %.15g as a single block' % (what, float(E), len(blocks), float(E1))))
        if onp.abs(onp.asarray(Ke) - K1).max() > 1e-12 * onp.abs(K1).max():
            fails.append(Failure('block-split-stiffness', '%s: element stiffnesses differ by %.3e relative between multi- and single-block'
                                 % (what, onp.abs(onp.asarray(Ke) - K1).max() / onp.abs(K1).max())))
        if s1.size and onp.abs(sm - s1).max() > 1e-12 * max(onp.abs(s1).max(), 1.0):
            fails.append(Failure('block-split-state', '%s: updated internal variables differ by %.3e' % (what, onp.abs(sm - s1).max())))
    nbc = int((~isunk).sum())
    classes = [case['factory'], case['model'], case['mode'], 'proj-%s' % case['proj'], 'order%d' % case['order'], 'evolved' if evolved else 'virgin']
    if case['factory'] == 'multi':
        classes.append('different-materials' if case.get('hetero') else 'same-material')
    nt = bool(onp.abs(U).max() > 0 and 0 < nbc < isunk.size and (evolved or cfg.state == 'none'))
    return Result(fails, classes=classes, nontrivial=nt)


PS, AX = 'plane strain', 'axisymmetric'
GROUPS = {
    'ps-elastic': ('single', [('linear-elastic/linear', PS, None, 1), ('neohookean/adagio', PS, None, 2), ('gent', PS, None, 1), ('neohookean/coupled', PS, None, 1)], 2),
    'ps-projection': ('single', [('neohookean/adagio', PS, 0, 1), ('neohookean/adagio', PS, 0, 2), ('neohookean/coupled', PS, 1, 2)], 2),
    'axisymmetric': ('single', [('neohookean/adagio', AX, None, 1), ('linear-elastic/linear', AX, None, 2), ('neohookean/coupled', AX, 0, 2)], 2),
    'j2': ('single', [('j2/small/linear', PS, None, 1), ('j2/large/voce', PS, None, 1)], 3),
    'visco': ('single', [('visco1', PS, None, 1)], 2),
    'multi-block': ('multi', [('neohookean/adagio', PS, None, 1), ('neohookean/adagio', PS, 0, 2)], 3),
    'dynamics': ('dynamics', [('neohookean/adagio', PS, None, 1), ('linear-elastic/linear', PS, None, 2), ('neohookean/coupled', AX, None, 1), ('neohookean/adagio', PS, 0, 2)], 2),
}
THOROUGH_EXTRA = {
    'j2': [('j2/large/linear', PS, None, 2), ('j2/seth/power law', PS, None, 1)],
    'visco': [('visco1', AX, None, 1), ('visco3', PS, None, 1)],
    'multi-block': [('j2/small/linear', PS, None, 1), ('neohookean/adagio', PS, None, 2)],
    'ps-elastic': [('neohookean/adagio', PS, None, 3), ('linear-elastic/green lagrange', PS, None, 2)],
}
import os as _os
_T = _os.environ.get('VERIF_TIER') == 'thorough' or '--tier thorough' in ' '.join(__import__('sys').argv)

SUBCHECKS = [
    Sub(name, make_cases(cells + (THOROUGH_EXTRA.get(name, []) if _T else []), fac), check, quick=40, thorough=600, shards_quick=nsh,
        shards_thorough=nsh, required=tuple(sorted(set(c[0] for c in cells))), budget_quick=165, budget_thorough=900, timeout=600)
    for name, (fac, cells, nsh) in GROUPS.items()
]
