"""C18 - smoothed min/max/abs, friction regularisation, smoothed ramp and segment parameter."""
import math

import numpy as onp
from hypothesis import strategies as st

from vlib.core import Sub, Result, Failure
from vlib import gen

PROPERTY = 'C18'
EPS = gen.EPS
RULE = ('Each case fixes a function (min/max/abs, friction potential, smoothed ramp zmax, smooth_linear), a '
        'smoothing width over ten decades and a base argument over twelve decades, and evaluates the function '
        'and its jax.grad on a ladder of ~60 arguments placed exactly on, 1-8 ulps either side of, and at relative '
        'distances 1e-15..1e-1 from each branch switch, plus free points inside and outside the band. One evaluation = '
        'one ladder point; a point is non-trivial when it lies within 1e-3*width of a switch or inside the band. '
        'Oracles: the stated inequalities with rounding allowance delta = 8*ulp*max(|x|,|y|,eps); exact equality '
        'outside the band; Lipschitz continuity of value and gradient between neighbouring ladder points.')
ASSUMPTIONS = ['subnormal arguments are excluded: XLA on CPU flushes them to zero',
               'rounding allowance 8*eps_machine*max(|x|,|y|,width) for values and 32*eps_machine for gradients of order one']

_J = {}


def _jax():
    if not _J:
        import jax
        import jax.numpy as np
        from optimism import SmoothFunctions as S
        from optimism.contact import Friction, MortarContact
        _J['np'] = np
        _J['min'] = jax.jit(S.min)
        _J['max'] = jax.jit(S.max)
        _J['abs'] = jax.jit(S.abs)
        _J['gmin'] = jax.jit(jax.vmap(jax.grad(S.min, (0, 1)), (0, 0, None)))
        _J['gmax'] = jax.jit(jax.vmap(jax.grad(S.max, (0, 1)), (0, 0, None)))
        _J['gabs'] = jax.jit(jax.vmap(jax.grad(S.abs, 0), (0, None)))
        _J['zmax'] = jax.jit(jax.vmap(S.zmax, (0, None)))
        _J['gzmax'] = jax.jit(jax.vmap(jax.grad(S.zmax, 0), (0, None)))
        _J['zmax1'] = jax.jit(S.zmax)
        _J['sl'] = jax.jit(MortarContact.smooth_linear)
        _J['gsl'] = jax.jit(jax.vmap(jax.grad(MortarContact.smooth_linear, 0), (0, None)))

        def fric(s, mu, sreg):
            return Friction.compute_friction_energy_from_perp_slip(s, Friction.Params(mu, sreg))
        _J['fric'] = jax.jit(jax.vmap(fric, (0, None, None)))
        _J['gfric'] = jax.jit(jax.vmap(jax.grad(fric, 0), (0, None, None)))
        _J['fric1'] = jax.jit(fric)
        _J['min1'] = S.min
    return _J


def ladder(center, width, free):
    """Arguments on and around `center` (a branch switch), scale `width`."""
    pts = [center]
    c = float(center)
    for k in range(1, 9):
        pts.append(gen.ulps(c, k))
        pts.append(gen.ulps(c, -k))
    for e in range(-15, 0):
        pts.append(c + width * 10.0 ** e)
        pts.append(c - width * 10.0 ** e)
    pts += [c + width * f for f in free]
    # XLA on CPU flushes subnormal numbers to zero; they are not part of the input domain
    pts = [p for p in pts if p == 0.0 or abs(p) > 1e-290]
    return onp.array(sorted(set(pts)))


@st.composite
def case_minmax(draw):
    fn = draw(st.sampled_from(['min', 'max', 'abs']))
    eps = draw(gen.logfloat(-10, 2))
    side = draw(st.sampled_from([-1.0, 1.0, 0.0]))        # which switch (0: centre of the band)
    if fn == 'abs':
        x = 0.0
    else:
        x = draw(st.one_of(gen.logfloat(-6, 6, signed=True), st.just(0.0),
                           gen.logfloat(-2, 4, signed=True).map(lambda s: s * eps),
                           st.sampled_from([1.0, -1.0]).map(lambda s: s * eps)))
    free = draw(st.lists(gen.floats(-3.0, 3.0), min_size=4, max_size=4))
    return {'fn': fn, 'eps': eps, 'x': x, 'side': side, 'free': free}


def check_minmax(case):
    J = _jax()
    np = J['np']
    fn, eps, x, side = case['fn'], case['eps'], case['x'], case['side']
    fails = []
    if fn == 'abs':
        # abs(t) = -min(-t, t): switches where |2t| = eps
        t = ladder(side * eps / 2, eps, case['free'])
        xs, ys = -t, t
        val = onp.asarray(J['abs'](np.array(t), eps))
        g = onp.asarray(J['gabs'](np.array(t), eps))
        true = onp.abs(t)
        diff = val - true                                   # must be in [0, eps/4]
        delta = 8 * EPS * onp.maximum(onp.abs(t), eps)
        d = 2 * t
        lo_bad = diff < -delta
        hi_bad = diff > eps / 4 + delta
        outside = onp.abs(ys - xs) >= eps
        eq_bad = outside & (val != true)
        gx = g
        param = t
        Lv, Lg = 1.0, 2.0 / eps
        sym_bad = onp.zeros_like(lo_bad)
        gsum_bad = (gx < -1 - 32 * EPS) | (gx > 1 + 32 * EPS)
    else:
        y = ladder(x - side * eps, eps, case['free'])
        xs = onp.full_like(y, x)
        ys = y
        f = J[fn]
        val = onp.asarray(f(np.array(xs), np.array(ys), eps))
        val_sw = onp.asarray(f(np.array(ys), np.array(xs), eps))
        gx, gy = J['g' + fn](np.array(xs), np.array(ys), eps)
        gx, gy = onp.asarray(gx), onp.asarray(gy)
        delta = 8 * EPS * onp.maximum(onp.maximum(onp.abs(xs), onp.abs(ys)), eps)
        if fn == 'min':
            true = onp.minimum(xs, ys)
            diff = true - val                               # in [0, eps/4]
        else:
            true = onp.maximum(xs, ys)
            diff = val - true
        lo_bad = diff < -delta
        hi_bad = diff > eps / 4 + delta
        outside = onp.abs(xs - ys) >= eps
        eq_bad = outside & (val != true)
        sym_bad = onp.abs(val - val_sw) > delta
        gsum_bad = (onp.abs(gx + gy - 1.0) > 32 * EPS) | (gx < -32 * EPS) | (gx > 1 + 32 * EPS)
        param = ys
        g = gy
        Lv, Lg = 1.0, 0.5 / eps
    for bad, clause, msg in ((lo_bad, 'one-sided', 'smoothed value on the wrong side of the true value'),
                             (hi_bad, 'tight', 'differs from the true value by more than eps/4'),
                             (eq_bad, 'exact-outside', 'not equal to the true value outside the band'),
                             (sym_bad, 'symmetric', 'value changes when the arguments are swapped'),
                             (gsum_bad, 'gradient-range', 'gradient components not in [0,1] / not summing to 1')):
        if bad.any():
            i = int(onp.flatnonzero(bad)[0])
            fails.append(Failure(clause, '%s: %s at x=%r y=%r eps=%r: value %r true %r'
                                 % (fn, msg, float(xs[i]), float(ys[i]), eps, float(val[i]), float(true[i])),
                                 x=float(xs[i]), y=float(ys[i])))
    # C1: neighbouring ladder points
    dp = onp.diff(param)
    dv = onp.abs(onp.diff(val))
    dg = onp.abs(onp.diff(g))
    dl = onp.maximum(delta[1:], delta[:-1])
    near = dp <= 0.25 * eps
    vbad = near & (dv > Lv * dp * (1 + 1e-9) + 2 * dl)
    gbad = near & (dg > Lg * dp * (1 + 1e-6) + 64 * EPS)
    if vbad.any():
        i = int(onp.flatnonzero(vbad)[0])
        fails.append(Failure('C0', '%s: value jumps by %.3e between arguments %.3e apart (eps=%r, x=%r, y=%r)'
                             % (fn, dv[i], dp[i], eps, float(xs[i]), float(ys[i])), x=float(xs[i]), y=float(ys[i])))
    if gbad.any():
        i = int(onp.flatnonzero(gbad)[0])
        fails.append(Failure('C1', '%s: gradient jumps by %.3e between arguments %.3e apart (eps=%r, x=%r, y=%r)'
                             % (fn, dg[i], dp[i], eps, float(xs[i]), float(ys[i])), x=float(xs[i]), y=float(ys[i])))
    # single (un-batched, un-jitted) call on the switch itself
    if fn == 'min':
        v1 = float(J['min1'](x, x - side * eps, eps))
        t1 = min(x, x - side * eps)
        d1 = 8 * EPS * max(abs(x), abs(x - side * eps), eps)
        if not (-d1 <= t1 - v1 <= eps / 4 + d1):
            fails.append(Failure('tight', 'min (single call): %r vs true %r, eps=%r' % (v1, t1, eps)))
    dist = onp.abs(onp.abs(xs - ys) - eps)
    nt = (dist <= 1e-3 * eps) | (onp.abs(xs - ys) < eps)
    keys = ['%s|%r|%r|%r' % (fn, eps, float(a), float(b)) for a, b, m in zip(xs, ys, nt) if m]
    classes = [fn, 'side%+d' % side, 'eps1e%d' % int(math.floor(math.log10(eps)))]
    return Result(fails, classes=classes, nontrivial=len(keys), n_eval=len(xs), keys=keys)


@st.composite
def case_friction(draw):
    mu = draw(gen.logfloat(-3, 2))
    sreg = draw(gen.logfloat(-10, 2))
    theta = draw(gen.angle())
    free = draw(st.lists(gen.floats(-0.99, 3.0), min_size=4, max_size=4))
    other = draw(st.lists(gen.floats(-3, 3), min_size=2, max_size=2))
    return {'mu': mu, 'sReg': sreg, 'theta': theta, 'free': free, 'other': other}


def check_friction(case):
    J = _jax()
    np = J['np']
    mu, sreg, th = case['mu'], case['sReg'], case['theta']
    r = ladder(sreg, sreg, case['free'])
    r = onp.concatenate([[0.0, 1e-150, sreg * 1e-8], r[r >= 0]])
    r = onp.array(sorted(set(r.tolist())))
    dirn = onp.array([math.cos(th), math.sin(th)])
    S = r[:, None] * dirn[None, :]
    val = onp.asarray(J['fric'](np.array(S), mu, sreg))
    g = onp.asarray(J['gfric'](np.array(S), mu, sreg))
    nrm = onp.hypot(S[:, 0], S[:, 1])
    fails = []
    dlt = 8 * EPS * mu * onp.maximum(nrm, sreg)

    def first(bad, clause, msg):
        if bad.any():
            i = int(onp.flatnonzero(bad)[0])
            fails.append(Failure(clause, 'friction: %s at |s|=%r sReg=%r mu=%r: phi=%r grad=%r'
                                 % (msg, float(nrm[i]), sreg, mu, float(val[i]), g[i].tolist()), s=S[i].tolist()))
    first(~onp.isfinite(val) | ~onp.isfinite(g).all(axis=1), 'finite', 'non-finite value or gradient')
    first(val < 0, 'non-negative', 'negative potential')
    first(val > mu * nrm + dlt, 'coulomb-bound', 'exceeds the Coulomb value mu*|s|')
    out = nrm >= sreg * (1 + 4 * EPS)
    first(out & (onp.abs(val - mu * (nrm - 0.5 * sreg)) > dlt), 'outside-value',
          'not mu*(|s|-sReg/2) outside the switch radius')
    # C1 along the ray
    dr = onp.diff(nrm)
    near = dr <= 0.25 * sreg
    dv = onp.abs(onp.diff(val))
    gn = g @ dirn                           # radial derivative
    dg = onp.abs(onp.diff(gn))
    vb = near & (dv > mu * dr * (1 + 1e-9) + 2 * onp.maximum(dlt[1:], dlt[:-1]))
    gb = near & (dg > mu / sreg * dr * (1 + 1e-6) + 64 * EPS * mu)
    if vb.any():
        i = int(onp.flatnonzero(vb)[0])
        fails.append(Failure('C0', 'friction: value jumps %.3e over %.3e at |s|=%r (sReg=%r)' % (dv[i], dr[i], nrm[i], sreg)))
    if gb.any():
        i = int(onp.flatnonzero(gb)[0])
        fails.append(Failure('C1', 'friction: gradient jumps %.3e over %.3e at |s|=%r (sReg=%r)' % (dg[i], dr[i], nrm[i], sreg)))
    # convexity: midpoint inequality between each ladder point and a second generated point
    o = onp.array(case['other']) * sreg
    Pm = 0.5 * (S + o[None, :])
    vo = float(J['fric1'](np.array(o), mu, sreg))
    vm = onp.asarray(J['fric'](np.array(Pm), mu, sreg))
    cb = vm > 0.5 * (val + vo) + 8 * EPS * mu * (nrm + onp.linalg.norm(o) + sreg)
    if cb.any():
        i = int(onp.flatnonzero(cb)[0])
        fails.append(Failure('convex', 'friction: midpoint value %r above the chord %r (s=%r, t=%r, sReg=%r)'
                             % (float(vm[i]), float(0.5 * (val[i] + vo)), S[i].tolist(), o.tolist(), sreg)))
    nt = onp.abs(nrm - sreg) <= 1e-3 * sreg
    keys = ['fr|%r|%r|%r' % (mu, sreg, float(a)) for a, m in zip(nrm, nt) if m]
    return Result(fails, classes=['friction', 'sReg1e%d' % int(math.floor(math.log10(sreg)))],
                  nontrivial=len(keys), n_eval=len(r) * 2, keys=keys)


@st.composite
def case_ramp(draw):
    fn = draw(st.sampled_from(['zmax', 'smooth_linear']))
    if fn == 'zmax':
        w = draw(gen.logfloat(-10, 2))
    else:
        w = min(draw(gen.logfloat(-8, 0)), 0.49)
    which = draw(st.sampled_from([0, 1]))
    free = draw(st.lists(gen.floats(-3.0, 3.0), min_size=4, max_size=4))
    return {'fn': fn, 'w': w, 'which': which, 'free': free}


def check_ramp(case):
    J = _jax()
    np = J['np']
    fn, w = case['fn'], case['w']
    fails = []
    if fn == 'zmax':
        c = w if case['which'] else -w
        t = ladder(c, w, case['free'])
        val = onp.asarray(J['zmax'](np.array(t), w))
        g = onp.asarray(J['gzmax'](np.array(t), w))
        Lv, Lg, scale = 1.0, 0.5 / w, w
        v1 = float(J['zmax1'](float(c), w))     # un-batched path: lax.cond really branches
        k = int(onp.flatnonzero(t == c)[0])
        if abs(v1 - val[k]) > 8 * EPS * w:
            fails.append(Failure('C0', 'zmax: single call %r and batched call %r differ at the switch x=%r eps=%r'
                                 % (v1, float(val[k]), c, w)))
    else:
        c = w if case['which'] else 1.0 - w
        t = ladder(c, w, case['free'])
        t = t[(t > -0.5) & (t < 1.5)]
        val = onp.asarray(J['sl'](np.array(t), w))
        g = onp.asarray(J['gsl'](np.array(t), w))
        Lv, Lg, scale = 1.5, 1.0 / w, 1.0
    # (1-xi)/l carries the absolute rounding error of 1-xi divided by l
    gtol = 64 * EPS * (1.0 if fn == 'zmax' else 1.0 / w)
    if not (onp.isfinite(val).all() and onp.isfinite(g).all()):
        fails.append(Failure('finite', '%s: non-finite value/gradient, width %r' % (fn, w)))
    dp = onp.diff(t)
    near = dp <= 0.25 * w
    dv = onp.abs(onp.diff(val))
    dg = onp.abs(onp.diff(g))
    Lvv = Lv * onp.maximum(1.0, onp.maximum(onp.abs(g[1:]), onp.abs(g[:-1])))
    vb = near & (dv > Lvv * dp * (1 + 1e-9) + 16 * EPS * max(scale, w))
    gb = near & (dg > Lg * dp * (1 + 1e-6) + gtol * onp.maximum(1.0, onp.abs(g[1:])))
    if vb.any():
        i = int(onp.flatnonzero(vb)[0])
        fails.append(Failure('C0', '%s: value jumps %.3e over %.3e at %r (width %r)' % (fn, dv[i], dp[i], t[i], w)))
    if gb.any():
        i = int(onp.flatnonzero(gb)[0])
        fails.append(Failure('C1', '%s: gradient jumps %.3e over %.3e at %r (width %r)' % (fn, dg[i], dp[i], t[i], w)))
    nt = onp.abs(t - c) <= 1e-3 * w
    keys = ['%s|%r|%r' % (fn, w, float(a)) for a, m in zip(t, nt) if m]
    return Result(fails, classes=[fn, 'switch%d' % case['which']], nontrivial=len(keys), n_eval=len(t), keys=keys)


SUBCHECKS = [
    Sub('minmaxabs', case_minmax, check_minmax, quick=1500, thorough=20000, shards_quick=6, shards_thorough=10,
        required=('min', 'max', 'abs', 'side+1', 'side-1', 'side+0')),
    Sub('friction', case_friction, check_friction, quick=1200, thorough=15000, shards_quick=4, shards_thorough=3,
        required=('friction',)),
    Sub('ramp', case_ramp, check_ramp, quick=1200, thorough=15000, shards_quick=4, shards_thorough=3,
        required=('zmax', 'smooth_linear', 'switch0', 'switch1')),
]
