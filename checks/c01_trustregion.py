"""C01 - trust-region minimiser: descent, honest flag, success on well-conditioned convex problems."""
import math
import re

import numpy as onp
from hypothesis import strategies as st

from vlib.core import Sub, Result, Failure, capture_stdout
from vlib import gen
from vlib import objectives as obj

PROPERTY = 'C01'
EPS = gen.EPS
RULE = ('Objective family (SPD quadratic with condition up to 1e8, quadratic+quartic, indefinite+quartic, singular valley, Rosenbrock-type, '
        'sum of cosines, softplus) x dimension 1-12 x coefficients x start point x settings (radius, minimum radius, acceptance thresholds, '
        'shrink/grow factors, iteration caps 1..100, CG caps, tolerance relative to the initial gradient, inner product, incremental '
        'objective) x preconditioner (exact / stale / identity) x entry point (trust_region_minimize, nonlinear_equation_solve with a new '
        'parameter set, warm start and preconditioner refresh on/off). The callback records every reported iterate; value / gradient are '
        're-evaluated by the checker from the raw function under the requested parameters. Non-trivial: >= 2 accepted iterates, or a '
        'failure exit, or a boundary / negative-curvature step.')
ASSUMPTIONS = ['the dense Cholesky stand-in for scikit-sparse (shims/sksparse) is the preconditioner back end',
               'rounding bound for descent: 64*n*ulp*(f_abs(x_k)+f_abs(x_k+1)) with f_abs the sum of absolute terms',
               'success on convex problems is asserted on the sub-domain: Hessian spectrum over minimiser, start point and every reported iterate within a condition number of 1e3, |x0-x*| <= 2e4 (start points over six decades), default settings, exact preconditioner']

NS = [1, 2, 3, 5, 8, 12]
_O = {}


def get_objective(n, kind):
    """One Objective per (n, preconditioner kind) and worker; coefficients are swapped through objective.p."""
    key = (n, kind)
    if key not in _O:
        import jax.numpy as np
        from optimism import Objective
        from scipy.sparse import identity
        f = obj.make_f(n)
        p0 = Objective.Params(np.zeros(n), None, np.concatenate([np.eye(n).ravel(), np.zeros(sum(obj.sizes(n)) - n * n)]))
        with capture_stdout():
            if kind == 'identity':
                ps = Objective.PrecondStrategy(lambda x, p: identity(n, format='csc'))
                o = Objective.Objective(f, np.zeros(n), p0, ps)
            else:
                o = Objective.Objective(f, np.zeros(n), p0)
        _O[key] = o
    return _O[key]


@st.composite
def cases(draw):
    n = NS[draw(st.integers(0, len(NS) - 1))]
    coef = draw(obj.coefficients(n))
    x0 = onp.array(draw(st.lists(gen.floats(-1, 1), min_size=n, max_size=n))) * draw(gen.logfloat(-3, 2))
    entry = ['trm', 'nes', 'nes', 'trm'][draw(st.integers(0, 3))]
    pre = ['exact', 'stale', 'identity', 'exact'][draw(st.integers(0, 3))]
    s = {'tr_size': draw(gen.logfloat(-3, 3)), 'min_rel': draw(gen.logfloat(-12, -1)), 'eta1': draw(gen.logfloat(-12, -2)),
         'eta2': draw(gen.floats(0.05, 0.3)), 'eta3': draw(gen.floats(0.35, 0.9)), 't1': draw(gen.floats(0.1, 0.7)), 't2': draw(gen.floats(1.2, 3.0)),
         'max_trust_iters': [100, 1, 2, 5, 100][draw(st.integers(0, 4))], 'max_cg_iters': [50, 1, 2, 5][draw(st.integers(0, 3))],
         'max_cum': [1000, 1, 5][draw(st.integers(0, 2))],
         'tol_rel': draw(gen.logfloat(-12, -2)) if draw(st.integers(0, 3)) else draw(gen.floats(0.05, 0.9)),
         'precnorm': draw(st.booleans()), 'incremental': draw(st.integers(0, 5)) == 5}
    other = draw(obj.coefficients(n, family='spdquad', cond_exp=(0.0, 2.0)))      # parameters the objective holds before / stale preconditioner
    return {'n': n, 'coef': coef, 'x0': x0.tolist(), 'entry': entry, 'pre': pre, 'settings': s, 'other': other,
            'warm': draw(st.booleans()), 'updatePrecond': draw(st.booleans()), 'default_domain': False}


@st.composite
def convex_cases(draw):
    """Well-conditioned strictly convex sub-domain, default settings, public driver."""
    n = NS[draw(st.integers(0, len(NS) - 1))]
    fam = obj.CONVEX[draw(st.integers(0, 2))]
    coef = draw(obj.coefficients(n, family=fam, cond_exp=(0.0, 3.0)))
    x0 = onp.array(draw(st.lists(gen.floats(-1, 1), min_size=n, max_size=n))) * draw(gen.logfloat(-2, 4))
    other = draw(obj.coefficients(n, family='spdquad', cond_exp=(0.0, 2.0)))
    return {'n': n, 'coef': coef, 'x0': x0.tolist(), 'entry': 'nes', 'pre': 'exact', 'settings': None, 'other': other,
            'warm': draw(st.booleans()), 'updatePrecond': True, 'default_domain': True}


@st.composite
def rising_model_cases(draw):
    """Neighbourhood of a configuration in which the dogleg step between the Cauchy point and a negative-curvature CG end
    point has a POSITIVE model change (the branch `if modelObjective > 0` of trust_region_minimize): indefinite Hessian at
    the start, preconditioner factorised earlier at a point where the Hessian is positive definite and not refreshed,
    default settings.  Random search reaches that branch about once in 1e4 cases, so it is targeted by construction
    (the configuration itself was contributed by an independently seeded change, C01-m3)."""
    pert = lambda v, rel=0.08: float(v * (1.0 + draw(gen.floats(-rel, rel))))
    A = [[pert(-1.0), pert(-4.0)], [0.0, pert(2.5)]]
    A[1][0] = A[0][1]
    b = [-pert(1.5), -pert(0.5)]                # f = 1/2 x.A.x - b.x + q sum x^4 in vlib.objectives
    q = pert(2.0)
    scale = draw(gen.logfloat(-2, 2))
    dsg = onp.concatenate([onp.array(A).ravel(), [q], onp.zeros(sum(obj.sizes(2)) - 5)]) * scale
    coef = {'family': 'indefinite', 'n': 2, 'b': (onp.array(b) * scale).tolist(), 'design': dsg.tolist(), 'scale': scale,
            'lam_min': -4.0 * scale, 'lam_max': 5.0 * scale}
    other = draw(obj.coefficients(2, family='spdquad', cond_exp=(0.0, 2.0)))
    return {'n': 2, 'coef': coef, 'x0': [pert(0.25), pert(0.4, 0.15)], 'xs': [pert(-0.25), pert(-3.0, 0.2)], 'entry': 'trm', 'pre': 'self-stale',
            'settings': None, 'other': other, 'warm': False, 'updatePrecond': False, 'default_domain': True, 'scaled_tol': True}


def KNOWN_D9(sub, case, failure):
    """D9: the uphill iterate is the trial point returned by the convergence exit (flag True, last reported iterate)."""
    return bool(failure.clause == 'descent' and failure.data.get('at_converged_exit') is True)


KNOWN_MATCH = {'D9': KNOWN_D9}


def check(case):
    import jax.numpy as np
    from optimism import EquationSolver as ES
    from optimism import Objective
    n = case['n']
    fv, fabs, fg, fh = obj.raw_functions(n)
    coef = case['coef']
    p_req = obj.params(np, coef, Objective)
    p_other = obj.params(np, case['other'], Objective)
    o = get_objective(n, 'identity' if case['pre'] == 'identity' else 'dense')
    x0 = np.array(case['x0'])
    g0 = float(onp.linalg.norm(onp.asarray(fg(x0, p_req))))
    if case['default_domain']:
        settings = ES.get_settings()
        tol = settings.tol
    else:
        s = case['settings']
        tol = max(s['tol_rel'] * max(g0, 1e-300), 1e-14 * (1 + g0))
        settings = ES.get_settings(t1=s['t1'], t2=s['t2'], eta1=s['eta1'], eta2=s['eta2'], eta3=s['eta3'], max_trust_iters=s['max_trust_iters'],
                                   tol=tol, max_cg_iters=s['max_cg_iters'], max_cumulative_cg_iters=s['max_cum'], tr_size=s['tr_size'],
                                   min_tr_size=s['tr_size'] * s['min_rel'], use_preconditioned_inner_product_for_cg=s['precnorm'],
                                   use_incremental_objective=s['incremental'])
    reported = []
    cb = lambda x, ob: reported.append(onp.array(x))
    with capture_stdout() as buf:
        if case['entry'] == 'trm':
            o.p = p_req
            if case['pre'] == 'stale':
                o.p = p_other
                o.update_precond(np.array(case['x0']) * 0.5 + 1.0)
                o.p = p_req
            elif case['pre'] in ('exact', 'identity'):
                o.update_precond(x0)
            elif case['pre'] == 'self-stale':
                o.update_precond(np.array(case['xs']))       # factorised at an earlier point, not refreshed
            start = onp.array(case['x0'])
            xr, flag = ES.trust_region_minimize(o, x0, settings, callback=cb)
        else:
            o.p = p_other
            o.update_precond(x0)              # state left behind by a previous load step
            upd = case['updatePrecond'] or case['default_domain']
            xr, flag = ES.nonlinear_equation_solve(o, x0, p_req, settings, callback=cb, useWarmStart=case['warm'], updatePrecond=upd)
            start = None
    log = buf.getvalue()
    xr = onp.asarray(xr)
    fails = []
    data = dict(entry=case['entry'], pre=case['pre'], flag=bool(flag))
    # (a) returned point is the last reported one; all finite
    if reported:
        if not onp.array_equal(reported[-1], xr):
            fails.append(Failure('returns-last', 'returned point differs from the last reported iterate by %.3e' % onp.abs(reported[-1] - xr).max(), **data))
    elif case['entry'] == 'trm' and not onp.array_equal(xr, onp.array(case['x0'])):
        fails.append(Failure('returns-last', 'no iterate was reported but the returned point is not the start point', **data))
    if not all(onp.all(onp.isfinite(r)) for r in reported) or not onp.all(onp.isfinite(xr)):
        fails.append(Failure('finite', 'a reported / returned iterate is not finite', **data))
        return Result(fails, nontrivial=True)
    # (b) descent (default mode only)
    seq = ([start] if start is not None else []) + reported
    incremental = (not case['default_domain']) and case['settings']['incremental']
    if not incremental:
        vals = [float(fv(np.array(x), p_req)) for x in seq]
        absv = [float(fabs(np.array(x), p_req)) for x in seq]
        for k in range(len(seq) - 1):
            bound = 64 * n * EPS * (absv[k] + absv[k + 1])
            if vals[k + 1] > vals[k] + bound:
                last = (k + 1 == len(seq) - 1) and bool(flag)
                # the final reported iterate of a successful solve comes from the convergence exit unless the same point was
                # reported twice (accepted, then returned)
                dup = len(seq) >= 2 and k + 1 == len(seq) - 1 and False
                fails.append(Failure('descent', 'objective rose from %.12g to %.12g (bound %.2e) between reported iterates %d and %d of %d'
                                     % (vals[k], vals[k + 1], bound, k, k + 1, len(seq)), at_converged_exit=last, **data))
                break
    # (c) honest flag
    gr = float(onp.linalg.norm(onp.asarray(fg(np.array(xr), p_req))))
    if flag and not gr < tol * (1 + 1e-9):
        fails.append(Failure('honest-flag', 'success reported but |grad f(x; requested p)| = %.6e >= tol = %.6e' % (gr, tol), **data))
    # the objective must carry the requested parameters afterwards
    if case['entry'] == 'nes' and not (onp.array_equal(onp.asarray(o.p[0]), onp.asarray(p_req[0])) and
                                       onp.array_equal(onp.asarray(o.p[2]), onp.asarray(p_req[2]))):
        fails.append(Failure('parameters', 'objective.p is not the requested parameter set after nonlinear_equation_solve', **data))
    # (d) success and unique minimiser on the well-conditioned convex sub-domain
    classes = [coef['family'], case['entry'], 'pre-' + case['pre'], 'n%d' % n]
    if case['default_domain']:
        xs, gs = obj.dense_minimiser(n, coef, case['x0'])
        if gs < 1e-10 * (1 + g0) and onp.linalg.norm(xs - onp.array(case['x0'])) <= 2e4:
            H = onp.asarray(fh(np.array(xs), p_req))
            w = onp.linalg.eigvalsh(0.5 * (H + H.T))
            # "well-conditioned" has to hold where the solver works, not only at the minimiser: the Hessian spectrum over the
            # minimiser, the start point and every reported iterate must stay within a condition number of 1e3
            lo_w, hi_w = w[0], w[-1]
            for xq in [onp.array(case['x0'])] + reported:
                wq = onp.linalg.eigvalsh(onp.asarray(fh(np.array(xq), p_req)))
                lo_w, hi_w = min(lo_w, wq[0]), max(hi_w, wq[-1])
            if lo_w > 0 and hi_w / lo_w <= 1e3:
                classes.append('convex-domain')
                if not flag:
                    fails.append(Failure('convex-success', 'no success on a strictly convex problem (condition %.1e, |x0-x*| = %.2g): |grad| = %.3e'
                                         % (w[-1] / w[0], onp.linalg.norm(xs - onp.array(case['x0'])), gr), **data))
                elif onp.linalg.norm(xr - xs) > 10 * tol / w[0] + 2 * gs / w[0] + 1e-12 * (1 + onp.linalg.norm(xs)):      # 2 gs / lambda_min: accuracy of the reference
                    fails.append(Failure('convex-minimiser', 'returned point is %.3e from the unique minimiser (tol/lambda_min = %.1e)'
                                         % (onp.linalg.norm(xr - xs), tol / w[0]), **data))
    # classification from the solver's own banners
    if 'still too small' in log:
        classes.append('exit-tr-too-small')
    elif 'Reached the maximum number' in log:
        classes.append('exit-max-iters')
    elif flag:
        classes.append('exit-converged')
    if 'Found a positive model objective increase' in log:
        classes.append('positive-model')
    if 'updating precond and trying again' in log:
        classes.append('precond-retry')
    for t in ('boundary', 'neg curve', 'interior'):
        if re.search(r',\s+%s\s*, accepted' % t, log):
            classes.append('step-' + t.replace(' ', ''))
    if incremental:
        classes.append('incremental')
    if not case['default_domain']:
        classes.append('precnorm' if case['settings']['precnorm'] else 'euclid')
    nacc = len(reported) - (1 if (flag or 'still too small' in log) and len(reported) >= 2 and onp.array_equal(reported[-1], reported[-2]) else 0)
    nt = bool(nacc >= 2 or not flag or 'step-boundary' in classes or 'step-negcurve' in classes)
    return Result(fails, classes=classes, nontrivial=nt)


SUBCHECKS = [
    Sub('general', cases, check, quick=250, thorough=10000, shards_quick=10, shards_thorough=10,
        required=('exit-tr-too-small', 'exit-max-iters', 'exit-converged', 'step-boundary', 'step-negcurve', 'step-interior', 'pre-stale',
                  'pre-identity', 'pre-exact', 'precnorm', 'euclid', 'incremental', 'trm', 'nes'), budget_quick=170, timeout=120),
    Sub('rising-model', rising_model_cases, check, quick=60, thorough=3000, shards_quick=2, shards_thorough=2, required=('positive-model',),
        budget_quick=170),
    Sub('convex', convex_cases, check, quick=150, thorough=5000, shards_quick=4, shards_thorough=4, required=('convex-domain',), budget_quick=170),
]
