"""C19 - load stepping: warm start is the exact linear predictor, scaling is transparent, parameters are handed over."""
import math

import numpy as onp
from hypothesis import strategies as st

from vlib.core import Sub, Result, Failure, capture_stdout
from vlib import gen
from vlib import objectives as obj

PROPERTY = 'C19'
EPS = gen.EPS
RULE = ('warmstart: convex objective families (Hessian SPD at the current point), parameter change in the boundary-condition slot (index 0) or '
        'the design slot (index 2), exact or stale preconditioner; oracle = dense H, dense parameter Jacobian of the gradient and numpy '
        'solve; exact landing for energies quadratic in x and affine in the changed parameters. scaled: the same convex problem solved '
        'through ScaledObjective (diagonal scaling from a stiffness PrecondStrategy) and through the plain Objective, against a dense Newton '
        'minimiser. loadsteps: sequences of 2-5 load steps through nonlinear_equation_solve and TrustRegionSPG.solve with drawn parameter '
        'sets, warm start and preconditioner refresh on/off; after every step objective.p must be the requested set and a True flag must '
        'refer to it. Non-trivial: p_new != p_old and a warm-started step.')
ASSUMPTIONS = ['scipy cg default relative tolerance 1e-5 is the documented accuracy of the warm-start linear solve (2e-5 allowed)',
               'dense Cholesky stand-in for scikit-sparse']

NS = [2, 3, 5, 8]
_O = {}


def get_objective(n):
    if n not in _O:
        import jax.numpy as np
        from optimism import Objective
        f = obj.make_f(n)
        p0 = Objective.Params(np.zeros(n), None, np.concatenate([np.eye(n).ravel(), np.zeros(sum(obj.sizes(n)) - n * n)]))
        with capture_stdout():
            _O[n] = Objective.Objective(f, np.zeros(n), p0)
    return _O[n]


def perturb(coef, db, dd):
    """p_new with the same structure: b changed by db, the design vector scaled entrywise by (1 + dd)."""
    c2 = dict(coef)
    c2['b'] = (onp.array(coef['b']) + onp.array(db)).tolist()
    c2['design'] = (onp.array(coef['design']) * (1.0 + onp.array(dd))).tolist()
    return c2


@st.composite
def ws_cases(draw):
    n = NS[draw(st.integers(0, len(NS) - 1))]
    fam = obj.CONVEX[draw(st.integers(0, 2))]
    coef = draw(obj.coefficients(n, family=fam, cond_exp=(0.0, 5.0)))
    index = [0, 2][draw(st.integers(0, 1))]
    db = onp.array(draw(st.lists(gen.floats(-1, 1), min_size=n, max_size=n))) * coef['scale'] * draw(gen.logfloat(-3, 0))
    nd = len(coef['design'])
    dd = onp.array(draw(st.lists(gen.floats(-0.2, 0.2), min_size=nd, max_size=nd)))
    # keep A symmetric: perturb with a symmetric pattern
    A = dd[:n * n].reshape(n, n)
    dd[:n * n] = (0.5 * (A + A.T)).ravel()
    if index == 0:
        dd = dd * 0.0
    else:
        db = db * 0.0
    at_solution = draw(st.booleans())
    x = onp.array(draw(st.lists(gen.floats(-1, 1), min_size=n, max_size=n)))
    return {'n': n, 'coef': coef, 'index': index, 'db': db.tolist(), 'dd': dd.tolist(), 'at_solution': at_solution, 'x': x.tolist(),
            'pre': ['exact', 'stale'][draw(st.integers(0, 1))]}


def check_ws(case):
    import jax
    import jax.numpy as np
    from optimism import Objective, WarmStart
    n = case['n']
    fv, fabs, fg, fh = obj.raw_functions(n)
    coef = case['coef']
    cnew = perturb(coef, case['db'], case['dd'])
    p_old = obj.params(np, coef, Objective)
    p_new = obj.params(np, cnew, Objective)
    if case['at_solution']:
        xs, gs = obj.dense_minimiser(n, coef, case['x'])
        x = xs
    else:
        x = onp.array(case['x'])
    H = onp.asarray(fh(np.array(x), p_old))
    w = onp.linalg.eigvalsh(0.5 * (H + H.T))
    if not (w[0] > 0 and w[-1] / w[0] < 1e8):
        return Result(inconclusive='hessian-not-spd')
    o = get_objective(n)
    o.p = p_old
    with capture_stdout():
        o.update_precond(np.array(x if case['pre'] == 'exact' else x * 0.3 + 0.7))
        dx = onp.asarray(WarmStart.warm_start_increment(o, np.array(x), p_new, case['index']))
    idx = case['index']
    def with_slot(q):          # checker-side slot replacement (independent of the library's param_index_update)
        t = list(p_old)
        t[idx] = q
        return tuple(t)
    Jp = jax.jacfwd(lambda q: fg(np.array(x), with_slot(q)))(p_old[idx])
    rhs = onp.asarray(Jp) @ (onp.asarray(p_old[idx]) - onp.asarray(p_new[idx]))
    fails = []
    data = dict(index=idx, pre=case['pre'], family=coef['family'])
    if not onp.all(onp.isfinite(dx)):
        return Result(Failure('finite', 'warm start increment not finite', **data), nontrivial=True)
    nr = onp.linalg.norm(rhs)
    res = onp.linalg.norm(H @ dx - rhs)
    if nr > 0 and res > 2e-5 * nr:
        fails.append(Failure('linear-predictor', '|H dx - J_p (p_old - p_new)| = %.3e |rhs| (index %d, %s preconditioner, condition %.1e)'
                             % (res / nr, idx, case['pre'], w[-1] / w[0]), **data))
    ref = onp.linalg.solve(H, rhs)
    if nr > 0 and float(dx @ ref) <= 0:
        fails.append(Failure('direction', 'warm start increment points away from the linear predictor (dx.dx_ref = %.3e)' % float(dx @ ref), **data))
    # p must not have been modified by the warm start itself
    if not (onp.array_equal(onp.asarray(o.p[0]), onp.asarray(p_old[0])) and onp.array_equal(onp.asarray(o.p[2]), onp.asarray(p_old[2]))):
        fails.append(Failure('parameters', 'warm_start_increment changed objective.p', **data))
    landing = coef['family'] == 'spdquad' and idx == 0 and case['at_solution']
    if landing and nr > 0:
        g_before = onp.linalg.norm(onp.asarray(fg(np.array(x), p_new)))
        g_after = onp.linalg.norm(onp.asarray(fg(np.array(x + dx), p_new)))
        if g_after > 2e-5 * g_before + 1e-12 * coef['scale']:
            fails.append(Failure('exact-landing', 'quadratic energy: |grad f(x+dx; p_new)| = %.3e |grad f(x; p_new)|' % (g_after / g_before), **data))
    classes = ['index%d' % idx, 'pre-' + case['pre'], coef['family']] + (['landing'] if landing else [])
    return Result(fails, classes=classes, nontrivial=bool(nr > 0))


# ---------------------------------------------------------------------------------------------------
# warm start through the augmented-Lagrangian objective (the objective augmented_lagrange_solve warm-starts)
# ---------------------------------------------------------------------------------------------------

@st.composite
def al_ws_cases(draw):
    from checks import c04_alsolver as c04
    n, m = c04.COMBOS[draw(st.integers(0, len(c04.COMBOS) - 1))]
    coef = draw(obj.coefficients(n, family=obj.CONVEX[draw(st.integers(0, 1))], cond_exp=(0.0, 3.0)))
    cons = []
    for i in range(m):
        d = onp.array(draw(st.lists(gen.floats(-1, 1), min_size=n, max_size=n)))
        if onp.linalg.norm(d) < 1e-2:
            d = d + 1.0
        cons.append({'role': ['active', 'inactive', 'active'][draw(st.integers(0, 2))], 'dir': (d / onp.linalg.norm(d)).tolist(),
                     'off': draw(gen.floats(0.1, 1.0)), 'mult': draw(gen.logfloat(-1, 1))})
    db = onp.array(draw(st.lists(gen.floats(-1, 1), min_size=n, max_size=n))) * coef['scale'] * draw(gen.logfloat(-2, 0))
    return {'n': n, 'm': m, 'coef': coef, 'ckind': 'linear', 'cons': cons, 'db': db.tolist(),
            'x': draw(st.lists(gen.floats(-1, 1), min_size=n, max_size=n)),
            'lam': [draw(gen.floats(0.0, 2.0)) for _ in range(m)],
            # penalties as an earlier load step leaves them: grown from the construction value by the growth factor
            'kgrow': [[1.0, 10.0, 100.0, 1.0][draw(st.integers(0, 3))] for _ in range(m)], 'kexp': draw(st.integers(-1, 1))}


def check_al_ws(case):
    """warm_start_increment on a ConstrainedObjective (current multipliers, penalties possibly grown since construction)
    against -H^-1 (dg) of the augmented Lagrangian written out by the checker."""
    import jax
    import jax.numpy as np
    from optimism import Objective, WarmStart
    from checks import c04_alsolver as c04
    n, m = case['n'], case['m']
    coef = case['coef']
    cvec, xu = c04.build_constraints(case)
    f = obj.make_f(n)
    cfun = c04.make_c(n, m)
    o = c04.get_objective(n, m, case['kexp'])
    o.reset_kappa()
    kappa = onp.asarray(o.constraintKappa) * onp.array(case['kgrow'])
    lam = onp.array(case['lam'])
    o.kappa = np.array(kappa)
    o.lam = np.array(lam)
    p_old = Objective.Params(np.array(coef['b']), np.array(cvec), np.array(coef['design']))
    p_new = Objective.Params(np.array(coef['b']) + np.array(case['db']), np.array(cvec), np.array(coef['design']))
    x = onp.array(case['x']) + xu

    def AL(z, p):          # the documented augmented Lagrangian, written out independently of ConstrainedObjective
        c = cfun(z, p)
        pen = np.where(np.array(lam) >= np.array(kappa) * c, -c * np.array(lam) + 0.5 * np.array(kappa) * c * c,
                       -0.5 * np.array(lam) ** 2 / np.array(kappa))
        return f(z, p) + np.sum(pen)
    H = onp.asarray(jax.hessian(AL)(np.array(x), p_old))
    w = onp.linalg.eigvalsh(0.5 * (H + H.T))
    if not (w[0] > 0 and w[-1] / w[0] < 1e8):
        return Result(inconclusive='hessian-not-spd')
    # the gradient depends on slot 0 only through the term -b.x of the objective family: J_p (p_old - p_new) = b_new - b_old
    # (taken as this difference of the stored parameters, not as a difference of two gradients, which would cancel)
    rhs = onp.asarray(p_new[0]) - onp.asarray(p_old[0])
    o.p = p_old
    with capture_stdout():
        o.update_precond(np.array(x))
        dx = onp.asarray(WarmStart.warm_start_increment(o, np.array(x), p_new, 0))
    data = dict(kgrow=case['kgrow'], family=coef['family'])
    if not onp.all(onp.isfinite(dx)):
        return Result(Failure('finite', 'warm start increment (augmented Lagrangian) not finite', **data), nontrivial=True)
    fails = []
    nr = onp.linalg.norm(rhs)
    res = onp.linalg.norm(H @ dx - rhs)
    if nr > 0 and res > 2e-5 * nr:
        fails.append(Failure('al-linear-predictor', 'augmented Lagrangian with penalties %s x construction value: |H dx - dg| = %.3e |dg| (condition %.1e)'
                             % (case['kgrow'], res / nr, w[-1] / w[0]), **data))
    cval = onp.asarray(cfun(np.array(x), p_old))
    quad = bool((lam >= kappa * cval).any())       # a constraint on the quadratic branch of the penalty: kappa enters the Hessian
    classes = ['kappa-grown' if max(case['kgrow']) > 1 else 'kappa-construction', 'penalty-in-hessian' if quad else 'penalty-flat']
    return Result(fails, classes=classes, nontrivial=bool(nr > 0 and quad and max(case['kgrow']) > 1))


# ---------------------------------------------------------------------------------------------------
# ScaledObjective
# ---------------------------------------------------------------------------------------------------

@st.composite
def scaled_cases(draw):
    n = NS[draw(st.integers(0, 2))]
    fam = obj.CONVEX[draw(st.integers(0, 2))]
    coef = draw(obj.coefficients(n, family=fam, cond_exp=(0.0, 3.0)))
    dscale = [10.0 ** draw(gen.floats(-2, 2)) for _ in range(n)]          # badly scaled unknowns: x_i -> x_i / s_i
    x0 = onp.array(draw(st.lists(gen.floats(-1, 1), min_size=n, max_size=n)))
    db = onp.array(draw(st.lists(gen.floats(-1, 1), min_size=n, max_size=n))) * coef['scale'] * draw(gen.logfloat(-2, 0))
    return {'n': n, 'coef': coef, 'dscale': dscale, 'x0': x0.tolist(), 'db': db.tolist(), 'warm': draw(st.booleans())}


def check_scaled(case):
    import jax
    import jax.numpy as np
    from scipy.sparse import csc_matrix
    from optimism import Objective, EquationSolver as ES
    n = case['n']
    coef = case['coef']
    fraw = obj.make_f(n)
    S = np.array(case['dscale'])
    f = lambda x, p: fraw(x * S, p)                   # the physical problem in badly scaled unknowns
    hess = jax.jit(jax.hessian(f))
    grad = jax.jit(jax.grad(f))
    p_old = obj.params(np, coef, Objective)
    p_new = obj.params(np, perturb(coef, case['db'], onp.zeros(len(coef['design']))), Objective)
    x0 = np.array(case['x0']) / S
    settings = ES.get_settings(tol=1e-9 * coef['scale'] * float(onp.min(case['dscale'])) + 1e-13)
    ps = Objective.PrecondStrategy(lambda x, p: csc_matrix(onp.asarray(hess(x, p))))
    fails = []
    with capture_stdout():
        so = Objective.ScaledObjective(f, x0, p_old, ps)
        po = Objective.Objective(f, x0, p_old)
        xs1, ok1 = ES.nonlinear_equation_solve(so, x0, p_old, settings, useWarmStart=False)
        xs2, ok2 = ES.nonlinear_equation_solve(so, xs1, p_new, settings, useWarmStart=case['warm'])
        xp1, okp1 = ES.nonlinear_equation_solve(po, x0, p_old, settings, useWarmStart=False)
        xp2, okp2 = ES.nonlinear_equation_solve(po, xp1, p_new, settings, useWarmStart=case['warm'])
    xs2, xp2 = onp.asarray(xs2), onp.asarray(xp2)
    # dense reference in the well-scaled variables
    xref, gref = obj.dense_minimiser(n, perturb(coef, case['db'], onp.zeros(len(coef['design']))), onp.array(case['x0']))
    xref = xref / onp.array(case['dscale'])
    Hs = onp.asarray(hess(np.array(xref), p_new))
    lam = onp.linalg.eigvalsh(0.5 * (Hs + Hs.T))
    data = dict(flags=[bool(ok1), bool(ok2), bool(okp1), bool(okp2)])
    if not (ok2 and okp2):
        return Result(inconclusive='solver-did-not-converge', classes=('not-converged',))
    gnew = onp.linalg.norm(onp.asarray(grad(np.array(xs2), p_new)))
    # a True flag of the scaled solve refers to the scaled gradient: |D^-1 g| < tol  =>  |g_i| < tol * scaling_i
    sc = onp.asarray(so.scaling)
    gs = onp.asarray(grad(np.array(xs2), p_new)) / sc
    # the flag was decided at xBar; the returned x = xBar / scaling is rounded: re-scaling it perturbs the gradient by
    # ~eps |H| |x| (plus the rounding of the gradient evaluation itself), which matters when tol is tiny against |H||x|
    Habs = onp.abs(onp.asarray(hess(np.array(xs2), p_new)))
    gnoise = 16 * EPS * onp.linalg.norm((Habs @ onp.abs(xs2) + onp.abs(onp.asarray(p_new[0]))) / sc)
    if onp.linalg.norm(gs) > settings.tol * (1 + 1e-6) + gnoise:
        fails.append(Failure('scaled-flag', 'scaled solve reported success but the scaled gradient norm is %.3e >= tol %.3e' % (onp.linalg.norm(gs), settings.tol), **data))
    err = onp.abs(xs2 - xref) * sc
    bound = 10 * settings.tol * sc.max() ** 2 / max(lam[0], 1e-300) + 1e-9 * onp.abs(xref * sc).max()
    # compare in the scaled variables xBar = scaling * x, where the problem is well conditioned
    Hbar = Hs / onp.outer(sc, sc)
    lb = onp.linalg.eigvalsh(0.5 * (Hbar + Hbar.T))
    # + accuracy of the reference minimiser (its own gradient norm over lambda_min) and the gradient rounding noise
    gref_bar = onp.linalg.norm(onp.asarray(grad(np.array(xref), p_new)) / sc)
    if onp.linalg.norm((xs2 - xref) * sc) > (10 * settings.tol + 2 * gref_bar + 2 * gnoise) / lb[0] + 1e-9 * onp.linalg.norm(xref * sc):
        fails.append(Failure('scaling-transparent', 'solution through ScaledObjective differs from the dense reference by %.3e (scaled variables; tol/lambda_min = %.1e)'
                             % (onp.linalg.norm((xs2 - xref) * sc), settings.tol / lb[0]), **data))
    if not (onp.array_equal(onp.asarray(so.p[0]), onp.asarray(p_new[0]))):
        fails.append(Failure('parameters', 'ScaledObjective does not carry the new parameters after the load step', **data))
    # the warm-start predictor through the scaled objective, observed with the public solver_algorithm hook
    xs1 = onp.asarray(xs1)
    with capture_stdout():
        so.p = p_old
        recorder = lambda objective, xBar0, settings_, callback=None: (xBar0, True)
        xw, _ = ES.nonlinear_equation_solve(so, np.array(xs1), p_new, settings, solver_algorithm=recorder, useWarmStart=True)
    dx = onp.asarray(xw) - xs1
    H1 = onp.asarray(hess(np.array(xs1), p_old))
    Jb = onp.asarray(jax.jacfwd(lambda b_: grad(np.array(xs1), (b_, None, p_old[2])))(p_old[0]))
    rhs = Jb @ (onp.asarray(p_old[0]) - onp.asarray(p_new[0]))
    ref = onp.linalg.solve(H1, rhs)
    # compare in the scaled variables, where the linear solve is carried out to a relative residual of 1e-5
    e = onp.linalg.norm((dx - ref) * sc)
    cnd = onp.linalg.cond(H1 / onp.outer(sc, sc))
    if onp.linalg.norm(ref * sc) > 0 and e > 2e-5 * cnd * onp.linalg.norm(ref * sc) + 16 * EPS * onp.linalg.norm(xs1 * sc):
        fails.append(Failure('scaled-warm-start', 'warm start through ScaledObjective differs from the linear predictor by %.3e relative (scaled variables, condition %.1e)'
                             % (e / onp.linalg.norm(ref * sc), cnd), **data))
    # bound-constrained solve through the scaled objective: physical bounds, some of them active and non-zero
    from optimism import TrustRegionSPG as SPG
    from checks import c05_spg
    xun = xref                                          # unconstrained minimiser (physical, badly scaled variables)
    span = onp.abs(xun) + 1.0 / onp.array(case['dscale'])
    lbp = xun + 0.3 * span * onp.array([1.0 if i % 2 == 0 else -3.0 for i in range(n)])     # even coordinates: active lower bound
    ubp = lbp + 2.0 * span
    sps = SPG.get_settings(tol=settings.tol, max_trust_iters=60)
    try:
        with capture_stdout():
            xb, okb = SPG.solve(so, np.array(onp.minimum(onp.maximum(xs2, lbp), ubp)), p_new, np.array(lbp), np.array(ubp), sps, useWarmStart=False)
    except RuntimeError:
        okb = False
    if okb:
        xb = onp.asarray(xb)
        g = onp.asarray(grad(np.array(xb), p_new))
        # physical KKT: projected gradient in the scaled metric must vanish to the tolerance
        r = (onp.minimum(onp.maximum(xb * sc - g / sc, lbp * sc), ubp * sc) - xb * sc)
        if onp.linalg.norm(r) > settings.tol * (1 + 1e-6):
            fails.append(Failure('scaled-bounds', 'SPG.solve through ScaledObjective reported success but the projected-gradient measure for the physical bounds is %.3e (tol %.1e)'
                                 % (onp.linalg.norm(r), settings.tol), **data))
        if (xb < lbp - 1e-12 * (1 + onp.abs(lbp))).any() or (xb > ubp + 1e-12 * (1 + onp.abs(ubp))).any():
            fails.append(Failure('scaled-bounds', 'SPG.solve through ScaledObjective returned a point outside the physical bounds', **data))
    return Result(fails, classes=[coef['family'], 'warm' if case['warm'] else 'cold'], nontrivial=True)


# ---------------------------------------------------------------------------------------------------
# load-step sequences through the drivers
# ---------------------------------------------------------------------------------------------------

@st.composite
def seq_cases(draw):
    n = NS[draw(st.integers(0, 2))]
    fam = obj.FAMILIES[draw(st.integers(0, len(obj.FAMILIES) - 1))]
    coef = draw(obj.coefficients(n, family=fam, cond_exp=(0.0, 4.0)))
    nd = len(coef['design'])
    steps = []
    for _ in range(draw(st.integers(2, 4))):
        db = onp.array(draw(st.lists(gen.floats(-1, 1), min_size=n, max_size=n))) * coef['scale'] * draw(gen.logfloat(-2, 0))
        ddmag = draw(st.sampled_from([0.0, 0.05, 0.2]))
        dd = onp.array(draw(st.lists(gen.floats(-1, 1), min_size=nd, max_size=nd))) * ddmag
        A = dd[:n * n].reshape(n, n)
        dd[:n * n] = (0.5 * (A + A.T)).ravel()
        steps.append({'driver': ['nes', 'spg', 'nes'][draw(st.integers(0, 2))], 'db': db.tolist(), 'dd': dd.tolist(),
                      'warm': draw(st.booleans()), 'upd': draw(st.booleans()), 'box': draw(st.booleans())})
    x0 = onp.array(draw(st.lists(gen.floats(-1, 1), min_size=n, max_size=n)))
    return {'n': n, 'coef': coef, 'steps': steps, 'x0': x0.tolist()}


def check_seq(case):
    import jax.numpy as np
    from optimism import Objective, EquationSolver as ES, TrustRegionSPG as SPG
    n = case['n']
    fv, fabs, fg, fh = obj.raw_functions(n)
    o = get_objective(n)
    cur = case['coef']
    o.p = obj.params(np, cur, Objective)
    x = np.array(case['x0'])
    tol = 1e-7 * cur['scale']
    es = ES.get_settings(tol=tol, max_trust_iters=60)
    ss = SPG.get_settings(tol=tol, max_trust_iters=25)
    fails = []
    classes = set([cur['family']])
    warm_used = False
    with capture_stdout():
        o.update_precond(x)
    for k, stp in enumerate(case['steps']):
        new = perturb(cur, stp['db'], stp['dd'])
        p_new = obj.params(np, new, Objective)
        # the property is stated for a positive-definite Hessian at the current solution
        wH = onp.linalg.eigvalsh(onp.asarray(fh(x, obj.params(np, cur, Objective))))
        pd = bool(wH[0] > 1e-8 * max(abs(wH[-1]), 1e-300))
        try:
            with capture_stdout():
                if stp['driver'] == 'nes':
                    xn, flag = ES.nonlinear_equation_solve(o, x, p_new, es, useWarmStart=stp['warm'], updatePrecond=stp['upd'])
                else:
                    big = 1e3 if stp['box'] else onp.inf
                    lb = np.full(n, -big)
                    ub = np.full(n, big)
                    xn, flag = SPG.solve(o, x, p_new, lb, ub, ss, useWarmStart=stp['warm'], updatePrecond=stp['upd'])
        except RuntimeError as e:
            if 'Cauchy point' in str(e):
                return Result(fails, classes=sorted(classes | {'cauchy-point-failure'}), inconclusive='no-cauchy-point', nontrivial=warm_used)
            if not pd:
                classes.add('singular-hessian-at-start')
                break
            raise
        except Exception:
            if not pd:                                          # outside the stated domain: nothing claimed
                classes.add('singular-hessian-at-start')
                break
            raise
        data = dict(step=k, driver=stp['driver'], warm=stp['warm'], upd=stp['upd'])
        if not (onp.array_equal(onp.asarray(o.p[0]), onp.asarray(p_new[0])) and onp.array_equal(onp.asarray(o.p[2]), onp.asarray(p_new[2]))):
            fails.append(Failure('parameters', 'after load step %d through %s the objective does not carry the requested parameters'
                                 % (k, stp['driver']), **data))
            break
        xn = onp.asarray(xn)
        if not onp.all(onp.isfinite(xn)):
            if flag:
                fails.append(Failure('honest-flag', 'load step %d: success reported for a non-finite point' % k, **data))
            elif pd:
                fails.append(Failure('finite', 'load step %d returned a non-finite point' % k, **data))
            else:
                classes.add('singular-hessian-at-start')       # outside the stated domain: nothing claimed
            break
        g = onp.linalg.norm(onp.asarray(fg(np.array(xn), p_new)))
        if flag and onp.abs(xn).max() < 999 and not g < tol * (1 + 1e-9):
            fails.append(Failure('honest-flag', 'load step %d (%s, warm=%s, updatePrecond=%s): success reported but |grad f(x; p_new)| = %.3e >= tol %.3e'
                                 % (k, stp['driver'], stp['warm'], stp['upd'], g, tol), **data))
            break
        classes.add(stp['driver'])
        classes.add('warm' if stp['warm'] else 'cold')
        classes.add('upd' if stp['upd'] else 'noupd')
        warm_used = warm_used or stp['warm']
        x = np.array(xn)
        cur = new
    return Result(fails, classes=sorted(classes), nontrivial=warm_used, n_eval=len(case['steps']))


SUBCHECKS = [
    Sub('warmstart', ws_cases, check_ws, quick=400, thorough=15000, shards_quick=4, shards_thorough=4,
        required=('index0', 'index2', 'pre-exact', 'pre-stale', 'landing')),
    Sub('al-warmstart', al_ws_cases, check_al_ws, quick=200, thorough=5000, shards_quick=2, shards_thorough=2,
        required=('kappa-grown', 'penalty-in-hessian')),
    Sub('scaled', scaled_cases, check_scaled, quick=15, thorough=400, shards_quick=4, shards_thorough=6, budget_quick=170),
    Sub('loadsteps', seq_cases, check_seq, quick=25, thorough=800, shards_quick=6, shards_thorough=6, required=('nes', 'spg', 'warm', 'cold', 'noupd'),
        budget_quick=170, timeout=300),
]
