"""C15 - Newmark stepping satisfies the equations of motion and conserves energy."""
import math

import numpy as onp
from hypothesis import strategies as st

from vlib.core import Sub, Result, Failure, capture_stdout
from vlib import gen
from vlib import materials as mats

PROPERTY = 'C15'
EPS = gen.EPS
RULE = ('Fixed-shape unstructured meshes (order 1-2), density and elastic constants, Newmark parameters with 2 beta >= gamma >= 1/2 and the '
        'trapezoidal pair, smooth initial displacement / velocity fields, arbitrary or consistent initial acceleration, sequences of 1-8 variable '
        'time steps over three decades, with and without essential BCs, linear elastic and neo-Hookean. One step = predict -> minimise '
        'compute_algorithmic_energy over the unknowns (checker-side dense Newton on jax.grad / jax.hessian of the library energy) -> correct. '
        'Oracles: discrete momentum balance with the mass matrix taken as the Hessian of the kinetic energy, the two Newmark update formulas, '
        'energy conservation for trapezoidal + linear elastic + no loads, exact rigid translation, mass sums = density * area, element masses '
        'assemble to the same matrix. Non-trivial: >= 3 steps with >= 2 distinct dt and non-rigid initial data.')
ASSUMPTIONS = ['the minimiser of the algorithmic energy is computed by the checker (dense Newton to 1e-12), independently of the trust-region solver',
               'tolerances: momentum 1e-9 relative plus 1e4 ulp of |H|(|U|+|Upred|) (the acceleration is a difference of displacements divided by beta dt^2), update formulas 1e-11, energy drift 1e-7 per step']

_C = {}


def get_fns(key):
    if key not in _C:
        import jax
        import jax.numpy as np
        from optimism import Mechanics, Mesh, FunctionSpace, QuadratureRule, Interpolants
        name, order, proj = (tuple(key) + (None,))[:3]
        cfg = mats.CONFIGS[name]
        pe, pe1 = Interpolants.make_parent_elements(order)
        quad = QuadratureRule.create_quadrature_rule_on_triangle(2 * order)
        shapeOnRef = Interpolants.compute_shapes(pe, quad.xigauss)

        def mk(coords, conns, pv, rho, gamma, beta):
            mesh = Mesh.Mesh(coords, conns, None, pe, pe1, {'block_0': np.arange(conns.shape[0])}, None, None)
            fs = FunctionSpace.construct_function_space_from_parent_element(mesh, shapeOnRef, quad, 'cartesian')
            model = mats.make_model(cfg, pv)._replace(density=rho)
            return Mechanics.create_dynamics_functions(fs, 'plane strain', model, Mechanics.NewmarkParameters(gamma=gamma, beta=beta))

        @jax.jit
        def predict(coords, conns, pv, rho, gamma, beta, U, V, A, dt):
            return mk(coords, conns, pv, rho, gamma, beta).predict(U, V, A, dt)

        @jax.jit
        def correct(coords, conns, pv, rho, gamma, beta, dU, V, A, dt):
            return mk(coords, conns, pv, rho, gamma, beta).correct(dU, V, A, dt)

        @jax.jit
        def psi(coords, conns, pv, rho, gamma, beta, U, Up, state, dt):
            df = mk(coords, conns, pv, rho, gamma, beta)
            e = lambda u: df.compute_algorithmic_energy(u, Up, state, dt)
            return e(U), jax.grad(e)(U), jax.hessian(e)(U)

        @jax.jit
        def energies(coords, conns, pv, rho, gamma, beta, U, V, state, dt):
            df = mk(coords, conns, pv, rho, gamma, beta)
            se = lambda u: df.compute_output_strain_energy(u, state, dt)
            ke = lambda v: df.compute_output_kinetic_energy(v)
            return se(U), jax.grad(se)(U), ke(V), jax.hessian(ke)(V), df.compute_element_masses()

        def init(coords, conns, pv, rho):
            return mk(coords, conns, pv, rho, 0.5, 0.25).compute_initial_state()

        if proj is not None:
            # the pressure-projection factory needs concrete arrays: built eagerly, once per generated case
            import numpy as onp_
            cache = {}

            def get(coords, conns, pv, rho, gamma, beta):
                k = (onp_.asarray(coords).tobytes(), onp_.asarray(conns).tobytes(), onp_.asarray(pv).tobytes(), float(rho), float(gamma), float(beta))
                if cache.get('k') != k:
                    cache.clear()
                    mesh = Mesh.Mesh(np.array(coords), np.array(conns), None, pe, pe1, {'block_0': np.arange(conns.shape[0])}, None, None)
                    fs = FunctionSpace.construct_function_space(mesh, quad, 'cartesian')
                    model = mats.make_model(cfg, [float(v) for v in pv])._replace(density=float(rho))
                    df = Mechanics.create_dynamics_functions(fs, 'plane strain', model, Mechanics.NewmarkParameters(gamma=float(gamma), beta=float(beta)),
                                                             pressureProjectionDegree=proj)

                    def psi_(U, Up, state, dt):
                        e = lambda u: df.compute_algorithmic_energy(u, Up, state, dt)
                        return e(U), jax.grad(e)(U), jax.hessian(e)(U)

                    def energies_(U, V, state, dt):
                        se = lambda u: df.compute_output_strain_energy(u, state, dt)
                        ke = lambda v: df.compute_output_kinetic_energy(v)
                        return se(U), jax.grad(se)(U), ke(V), jax.hessian(ke)(V), df.compute_element_masses()
                    cache.update(k=k, df=df, psi=jax.jit(psi_), energies=jax.jit(energies_))
                return cache
            predict = lambda coords, conns, pv, rho, gamma, beta, U, V, A, dt: get(coords, conns, pv, rho, gamma, beta)['df'].predict(np.array(U), np.array(V), A, dt)
            correct = lambda coords, conns, pv, rho, gamma, beta, dU, V, A, dt: get(coords, conns, pv, rho, gamma, beta)['df'].correct(dU, np.array(V), A, dt)
            psi = lambda coords, conns, pv, rho, gamma, beta, U, Up, state, dt: get(coords, conns, pv, rho, gamma, beta)['psi'](U, Up, state, dt)
            energies = lambda coords, conns, pv, rho, gamma, beta, U, V, state, dt: get(coords, conns, pv, rho, gamma, beta)['energies'](U, V, state, dt)
            init = lambda coords, conns, pv, rho: get(coords, conns, pv, rho, 0.5, 0.25)['df'].compute_initial_state()
        _C[key] = dict(predict=predict, correct=correct, psi=psi, energies=energies, init=init)
    return _C[key]


CELLS = [('linear-elastic/linear', 1), ('neohookean/adagio', 1), ('linear-elastic/linear', 2), ('neohookean/adagio', 2)]


PROJ_CELLS = [('linear-elastic/linear', 2, 0), ('neohookean/adagio', 2, 0), ('linear-elastic/linear', 2, 1)]


@st.composite
def cases(draw, cells=CELLS):
    cell = cells[draw(st.integers(0, len(cells) - 1))]
    name, order = cell[:2]
    cfg = mats.CONFIGS[name]
    pr = draw(mats.properties(cfg))
    mesh = draw(gen.lattice_mesh(fixed=(2, 2)))
    kind = ['general', 'trapezoidal', 'rigid', 'general', 'trapezoidal'][draw(st.integers(0, 4))]
    if kind == 'general':
        gamma = draw(gen.floats(0.5, 1.0))
        beta = draw(gen.floats(gamma / 2, 1.0))
    else:
        gamma, beta = 0.5, 0.25
    nsteps = draw(st.integers(1, 8))
    dts = [draw(gen.logfloat(-3, 0)) for _ in range(nsteps)]
    return {'model': name, 'order': order, 'props': pr, 'mesh': mesh, 'kind': kind, 'gamma': gamma, 'beta': beta, 'dts': dts,
            # the density sets the absolute time scale (dt ~ L sqrt(rho / stiffness)): decades of it, down to dt ~ 1e-8
            'proj': cell[2] if len(cell) > 2 else None,
            'rho': draw(gen.logfloat(-2, 2)) if draw(st.integers(0, 2)) else draw(gen.logfloat(-12, -2)), 'ucoef': draw(st.lists(gen.floats(-1, 1), min_size=12, max_size=12)),
            'vcoef': draw(st.lists(gen.floats(-1, 1), min_size=12, max_size=12)), 'acoef': draw(st.lists(gen.floats(-1, 1), min_size=12, max_size=12)),
            'amp': draw(gen.logfloat(-4, -1)), 'consistentA': draw(st.booleans()), 'bc': draw(st.booleans()),
            'bcseed': draw(st.integers(0, 10 ** 6)), 'vrigid': draw(st.lists(gen.floats(-2, 2), min_size=2, max_size=2))}


def check(case):
    import jax.numpy as np
    from optimism import FunctionSpace, Mesh, QuadratureRule, SparseMatrixAssembler
    from checks.c02_stiffness import smooth_field, pick_nodes
    cfg = mats.CONFIGS[case['model']]
    pr = case['props']
    pv = np.array(pr['pvec'])
    rho, gamma, beta = case['rho'], case['gamma'], case['beta']
    mesh = gen.build_mesh(case['mesh'], order=case['order'])
    coords = onp.asarray(mesh.coords)
    conns = mesh.conns
    nn = coords.shape[0]
    c1, t1 = gen.mesh_arrays(case['mesh'])
    area = float(onp.abs(gen._tri_areas(c1, t1)).sum())
    L = onp.ptp(c1, axis=0).max()
    F = get_fns((case['model'], case['order'], case.get('proj')))
    geo = (mesh.coords, conns, pv, rho, gamma, beta)
    # time scale: fastest wave across the mesh
    cwave = math.sqrt(pr['stiff'] / rho)
    tscale = L / cwave
    # steps up to ten wave-transit times; with pressure projection (J = det F must stay positive for every model) one
    dts = [d * tscale * (10 if case.get('proj') is None else 1) for d in case['dts']]
    Lext = float(onp.ptp(coords, axis=0).max())
    isbc = onp.zeros((nn, 2), dtype=bool)
    if case['bc'] and case['kind'] != 'rigid':
        nodes = pick_nodes(nn, 0.25, case['bcseed'])
        isbc[nodes, :] = True
    unk = ~isbc.ravel()
    fails = []
    with capture_stdout():
        state = np.array(onp.asarray(F['init'](mesh.coords, conns, pv, rho)))
        if case['kind'] == 'rigid':
            U = onp.zeros((nn, 2))
            V = onp.tile(onp.array(case['vrigid']) * cwave, (nn, 1))
            A = onp.zeros((nn, 2))
        else:
            U = smooth_field(coords, case['ucoef'], case['amp'])
            V = smooth_field(coords, case['vcoef'], case['amp']) * cwave / L * 3
            A = smooth_field(coords, case['acoef'], case['amp']) * (cwave / L) ** 2 * 3
            U[isbc] = 0
            V[isbc] = 0
            A[isbc] = 0
        se0, gse0, ke0, M, Me = [onp.asarray(o) for o in F['energies'](*geo, np.array(U), np.array(V), state, dts[0])]
        M = M.reshape(2 * nn, 2 * nn)
        # consistent mass: sums to density * area per component, and the element masses assemble to the same matrix
        for c in range(2):
            tot = M[c::2, c::2].sum()
            if abs(tot - rho * area) > 1e-11 * rho * area:
                fails.append(Failure('mass-sum', 'sum of the consistent mass (component %d) = %.12g, density*area = %.12g' % (c, tot, rho * area)))
        if abs(M[0::2, 1::2]).max() > 1e-13 * rho * area:
            fails.append(Failure('mass-sum', 'mass matrix couples the two displacement components'))
        fsd = FunctionSpace.FunctionSpace(np.zeros((1, 1, 1)), np.zeros((1, 1)), np.zeros((1, 1, 1, 2)), Mesh.mesh_with_nodesets(mesh, {}),
                                          QuadratureRule.create_quadrature_rule_on_triangle(1), False)
        dm0 = FunctionSpace.DofManager(fsd, 2, [])
        Ma = SparseMatrixAssembler.assemble_sparse_stiffness_matrix(np.array(Me), conns, dm0).toarray()
        if onp.abs(Ma - M).max() > 1e-11 * onp.abs(M).max():
            fails.append(Failure('element-masses', 'assembled compute_element_masses differs from the Hessian of the kinetic energy by %.3e relative'
                                 % (onp.abs(Ma - M).max() / onp.abs(M).max())))
        if case['consistentA'] and case['kind'] != 'rigid':
            # A0 from the balance of momentum at t = 0 on the unknowns
            a = onp.zeros(2 * nn)
            a[unk] = onp.linalg.lstsq(M[onp.ix_(unk, unk)], -gse0.ravel()[unk], rcond=None)[0]
            A = a.reshape(nn, 2)
        E0 = float(se0) + float(ke0)
        energy_ok = case['kind'] == 'trapezoidal' and cfg.family == 'linear-elastic' and case['consistentA'] and case.get('proj') is None
        t = 0.0
        for k, dt in enumerate(dts):
            Up, Vp = [onp.asarray(o) for o in F['predict'](*geo, np.array(U), np.array(V), np.array(A), dt)]
            # predictor formulas
            Up_ref = U + dt * V + 0.5 * dt * dt * (1 - 2 * beta) * A
            Vp_ref = V + dt * (1 - gamma) * A
            sU = onp.abs(U).max() + dt * onp.abs(V).max() + dt * dt * onp.abs(A).max() + 1e-300
            sV = onp.abs(V).max() + dt * onp.abs(A).max() + 1e-300
            if onp.abs(Up - Up_ref).max() > 1e-12 * sU or onp.abs(Vp - Vp_ref).max() > 1e-12 * sV:
                fails.append(Failure('predictor', 'step %d: predictor differs from the Newmark formulas (gamma %.3g, beta %.3g)' % (k, gamma, beta)))
                break
            # minimise the algorithmic energy over the unknowns: dense Newton
            Un = Up.copy()
            ok = False
            polish = 0
            for it in range(40):
                e, g, H = [onp.asarray(o) for o in F['psi'](*geo, np.array(Un), np.array(Up), state, dt)]
                g = g.ravel()[unk]
                H = H.reshape(2 * nn, 2 * nn)[onp.ix_(unk, unk)]
                scale = onp.abs(H).max() * (onp.abs(Un).max() + onp.abs(Up).max() + 1e-300)
                if onp.linalg.norm(g) <= (1e-10 * scale + 1e2 * EPS * onp.abs(H).max() * Lext) * math.sqrt(g.size):
                    ok = True
                    hscale = scale
                    polish += 1
                    if polish > 2:          # two more Newton steps after reaching the basin: residual at rounding level
                        break
                try:
                    dx = onp.linalg.solve(H, -g)
                except onp.linalg.LinAlgError:
                    break
                u = Un.ravel().copy()
                u[unk] += dx
                Un = u.reshape(nn, 2)
            if not ok:
                return Result(fails, inconclusive='newton-not-converged', classes=(case['model'],))
            Vn, An = [onp.asarray(o) for o in F['correct'](*geo, np.array(Un - Up), np.array(Vp), np.array(A), dt)]
            # Newmark update formulas
            U_ref = U + dt * V + dt * dt * ((0.5 - beta) * A + beta * An)
            V_ref = V + dt * ((1 - gamma) * A + gamma * An)
            if onp.abs(Un - U_ref).max() > 1e-11 * (sU + dt * dt * onp.abs(An).max()):
                fails.append(Failure('update-displacement', 'step %d: U differs from the Newmark displacement formula by %.3e' % (k, onp.abs(Un - U_ref).max())))
            if onp.abs(Vn - V_ref).max() > 1e-11 * (sV + dt * onp.abs(An).max()):
                fails.append(Failure('update-velocity', 'step %d: V differs from the Newmark velocity formula by %.3e (gamma %.3g)' % (k, onp.abs(Vn - V_ref).max(), gamma)))
            # balance of momentum at the new time
            se, gse, ke, _, _ = [onp.asarray(o) for o in F['energies'](*geo, np.array(Un), np.array(Vn), state, dt)]
            r = (M @ An.ravel() + gse.ravel())[unk]
            sc = onp.abs(M).max() * onp.abs(An).max() + onp.abs(gse).max() + 1e-300
            # rounding floor: the stress is formed from F = I + grad u with O(1) entries, so nodal forces carry an absolute
            # error of order eps * stiffness * mesh extent however small u is
            floor = 1e4 * EPS * hscale + 1e3 * EPS * onp.abs(H).max() * Lext
            if onp.abs(r).max() > 1e-9 * sc + floor:
                fails.append(Failure('momentum-balance', 'step %d: |M A + grad SE| = %.3e relative on the unknowns' % (k, onp.abs(r).max() / sc)))
            if fails:
                break
            U, V, A = Un, Vn, An
            t += dt
            if energy_ok:
                E = float(se) + float(ke)
                if abs(E - E0) > 1e-7 * (k + 1) * abs(E0) + 1e-14 * pr['stiff'] * area:
                    fails.append(Failure('energy-conservation', 'step %d (dt %.3g): kinetic + strain energy %.12g, initially %.12g (relative drift %.2e)'
                                         % (k, dt, E, E0, abs(E - E0) / abs(E0))))
                    break
            if case['kind'] == 'rigid':
                Uex = t * onp.array(case['vrigid']) * cwave
                if onp.abs(U - Uex[None, :]).max() > 1e-11 * onp.abs(Uex).max() + 1e-13 * cwave * t + 1e-300 or onp.abs(V - V[0]).max() > 1e-11 * cwave * 2:
                    fails.append(Failure('rigid-translation', 'step %d: rigid translation at constant velocity not reproduced (error %.3e)'
                                         % (k, onp.abs(U - Uex[None, :]).max())))
                    break
    classes = [case['model'], 'order%d' % case['order'], case['kind'], 'proj-%s' % case.get('proj'), 'dt<1e-4' if min(dts) < 1e-4 else 'dt>=1e-4', 'bc' if case['bc'] else 'free', 'consistentA' if case['consistentA'] else 'arbitraryA']
    if energy_ok:
        classes.append('energy-checked')
    nt = bool(len(dts) >= 3 and len(set(dts)) >= 2 and case['kind'] != 'rigid')
    return Result(fails, classes=classes, nontrivial=nt, n_eval=len(dts))


SUBCHECKS = [
    Sub('steps', cases, check, quick=150, thorough=1500, shards_quick=13, shards_thorough=13,
        required=('general', 'trapezoidal', 'rigid', 'energy-checked', 'bc', 'free', 'order2', 'dt<1e-4'), budget_quick=170, timeout=300),
    Sub('projection', lambda: cases(PROJ_CELLS), check, quick=12, thorough=150, shards_quick=3, shards_thorough=3,
        required=('proj-0',), budget_quick=170, timeout=600),
]
