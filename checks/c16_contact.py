"""C16 - contact geometry: closest points, signed gaps, mortar integrals, penalty energy, level-set constraints."""
import math

import numpy as onp
from hypothesis import strategies as st

from vlib.core import Sub, Result, Failure
from vlib import gen

PROPERTY = 'C16'
EPS = gen.EPS
RULE = ('cpp: a segment of any orientation/length (1e-3..1e3) and 24 query points per case in classes (inside the normal strip, '
        'beyond either end, on the line, at/near the end points, distances 1e-12..1e3 of the length); oracle = checker-side clamped '
        'projection + 64 sampled segment points. mortar: facing segment pairs with tilt < 60 deg in overlap classes (none, partial, '
        'nested, touching, identical), both normal rules, integrands {1, g, xiA, 1-xiA, g^2, |g|}, drawn smoothing size; oracles = '
        'rigid-motion invariance, exact zero without overlap, non-negativity, overlap length / gap area for parallel pairs. '
        'penalty / level set: lattice meshes with drawn displacement fields against plane, corner and circle obstacles; oracle = '
        'obstacle function at checker-computed deformed Gauss points. Non-trivial: query point outside the interior normal strip, '
        'pair with partial overlap, or a displacement field with at least one penetrating and one non-penetrating sample point.')
ASSUMPTIONS = ['segments are non-degenerate (length >= 1e-3 of the coordinate scale)',
               'mortar pairs face each other (anti-parallel tangents within 60 degrees), as the contact search delivers them',
               'distance accuracy is absolute: 1e-12*(segment length + |p - a|)']

_J = {}


def _jax():
    if not _J:
        import jax
        import jax.numpy as np
        from optimism.contact import EdgeCpp, MortarContact, PenaltyContact, LevelsetConstraint, Levelset
        from optimism import QuadratureRule, Surface
        _J.update(jax=jax, np=np, EdgeCpp=EdgeCpp, M=MortarContact, P=PenaltyContact, LC=LevelsetConstraint,
                  LS=Levelset, Q=QuadratureRule, S=Surface)
        _J['cppB'] = jax.jit(jax.vmap(EdgeCpp.cpp, (None, 0)))
        _J['distB'] = jax.jit(jax.vmap(EdgeCpp.cpp_distance, (None, 0)))
        _J['cpp1'] = jax.jit(EdgeCpp.cpp)
        _J['dist1'] = jax.jit(EdgeCpp.cpp_distance)
        M = MortarContact
        integrands = {'one': lambda xa, xb, g: 1.0, 'g': lambda xa, xb, g: g, 'xiA': lambda xa, xb, g: xa,
                      '1-xiA': lambda xa, xb, g: 1.0 - xa, 'g2': lambda xa, xb, g: g * g, 'absg': lambda xa, xb, g: np.abs(g)}
        normals = {'average': M.compute_average_normal, 'from_a': M.compute_normal_from_a}
        for nk, nf in normals.items():
            def allints(A, Bm, s, nf=nf):
                return np.array([M.integrate_with_mortar(A, Bm, nf, f, s) for f in integrands.values()])
            _J['mortar_' + nk] = jax.jit(allints)
            _J['inter_' + nk] = jax.jit(lambda A, Bm, nf=nf: M.compute_intersection(A, Bm, nf))
        _J['integrand_names'] = list(integrands)
    return _J


# ---------------------------------------------------------------------------------------------------
# closest point projection
# ---------------------------------------------------------------------------------------------------

@st.composite
def cpp_cases(draw):
    L = draw(gen.logfloat(-3, 3))
    th = draw(gen.angle())
    a = draw(st.lists(gen.floats(-10, 10), min_size=2, max_size=2))
    a = [a[0] * L, a[1] * L] if draw(st.booleans()) else a
    pts = []
    for _ in range(12):
        cls = draw(st.sampled_from(['strip', 'beyond_b', 'before_a', 'on_line_in', 'on_line_out', 'at_a', 'at_b', 'near_a', 'near_b']))
        dist = draw(gen.logfloat(-12, 3)) * draw(st.sampled_from([-1.0, 1.0]))
        s = {'strip': draw(gen.floats(0.0, 1.0)), 'beyond_b': 1.0 + draw(gen.logfloat(-12, 2)),
             'before_a': -draw(gen.logfloat(-12, 2)), 'on_line_in': draw(gen.floats(0.0, 1.0)),
             'on_line_out': draw(st.sampled_from([-1.0, 1.0])) * (1.0 + draw(gen.logfloat(-3, 2))),
             'at_a': 0.0, 'at_b': 1.0, 'near_a': draw(st.integers(-4, 4)) * 1e-16, 'near_b': 1.0 + draw(st.integers(-4, 4)) * 1e-16}[cls]
        if cls in ('on_line_in', 'on_line_out', 'at_a', 'at_b'):
            dist = 0.0
        pts.append({'cls': cls, 's': s, 'd': dist})
    return {'L': L, 'theta': th, 'a': a, 'pts': pts}


def check_cpp(case):
    J = _jax()
    np = J['np']
    L, th = case['L'], case['theta']
    a = onp.array(case['a'])
    t = onp.array([math.cos(th), math.sin(th)])
    n = onp.array([t[1], -t[0]])                        # Surface.compute_normal convention
    b = a + L * t
    P = onp.array([a + p['s'] * L * t + p['d'] * L * n for p in case['pts']])
    edge = np.array(onp.array([a, b]))
    cp, tt = J['cppB'](edge, np.array(P))
    cp, tt = onp.asarray(cp), onp.asarray(tt)
    dist = onp.asarray(J['distB'](edge, np.array(P)))
    fails = []
    # recompute the edge exactly as the library sees it
    av, bv = onp.asarray(edge[0]), onp.asarray(edge[1])
    v = bv - av
    Lf = onp.hypot(*v)
    keys = []
    classes = set()
    samples = av[None, :] + onp.linspace(0, 1, 65)[:, None] * v[None, :]
    for i, p in enumerate(case['pts']):
        x = P[i]
        tol = 1e-12 * (Lf + onp.hypot(*(x - av))) + 16 * EPS * max(onp.abs(av).max(), onp.abs(bv).max(), onp.abs(x).max())
        s_ref = min(1.0, max(0.0, float((x - av) @ v) / float(v @ v)))
        ref = av + s_ref * v
        dref = onp.hypot(*(x - ref))
        data = dict(edge=[av.tolist(), bv.tolist()], p=x.tolist(), cls=p['cls'])
        if not (onp.all(onp.isfinite(cp[i])) and onp.isfinite(dist[i])):
            fails.append(Failure('finite', 'cpp/cpp_distance non-finite for %s point' % p['cls'], **data))
            continue
        # on the segment
        off = onp.hypot(*(cp[i] - (av + min(1.0, max(0.0, float(tt[i]))) * v)))
        if off > tol or not (-1e-15 <= tt[i] <= 1 + 1e-15):
            fails.append(Failure('cpp-on-segment', 'cpp returned a point off the segment (t=%r) for %s point' % (float(tt[i]), p['cls']), **data))
        dc = onp.hypot(*(x - cp[i]))
        dmin = min(dref, onp.hypot(samples[:, 0] - x[0], samples[:, 1] - x[1]).min())
        if dc > dmin + tol:
            fails.append(Failure('cpp-nearest', 'cpp point is %.3e from p but the segment comes as close as %.3e (%s)' % (dc, dmin, p['cls']), **data))
        if abs(abs(dist[i]) - dref) > tol:
            fails.append(Failure('distance-magnitude', '|cpp_distance| = %r but the Euclidean distance to the segment is %r (%s)'
                                 % (float(abs(dist[i])), float(dref), p['cls']), **data))
        side = float((x - av) @ onp.array([v[1], -v[0]])) / Lf
        if abs(side) > tol and dref > tol:
            if (dist[i] > 0) != (side > 0):
                fails.append(Failure('distance-sign', 'cpp_distance = %r but the point is on the %s side of the outward normal (%s)'
                                     % (float(dist[i]), 'positive' if side > 0 else 'negative', p['cls']), **data))
        classes.add(p['cls'])
        if p['cls'] != 'strip':
            keys.append(repr((av.tolist(), bv.tolist(), x.tolist())))
    # un-batched call on the first point
    c1, t1 = J['cpp1'](edge, np.array(P[0]))
    d1 = float(J['dist1'](edge, np.array(P[0])))
    tol0 = 1e-12 * (Lf + onp.hypot(*(P[0] - av))) + 16 * EPS * max(onp.abs(av).max(), onp.abs(bv).max(), onp.abs(P[0]).max())
    side0 = float((P[0] - av) @ onp.array([v[1], -v[0]])) / Lf
    same = abs(d1 - dist[0]) <= tol0 or (abs(side0) <= tol0 and abs(abs(d1) - abs(dist[0])) <= tol0)   # sign is free on the line
    if not same or onp.abs(onp.asarray(c1) - cp[0]).max() > tol0:
        fails.append(Failure('single-vs-batched', 'single call and batched call disagree: %r vs %r' % (d1, float(dist[0]))))
    return Result(fails, classes=sorted(classes), nontrivial=len(keys), n_eval=len(P) + 1, keys=keys)


# ---------------------------------------------------------------------------------------------------
# mortar integrals
# ---------------------------------------------------------------------------------------------------

@st.composite
def mortar_cases(draw):
    LA = draw(gen.logfloat(-2, 2))
    ratio = draw(gen.logfloat(-2, 2)) if draw(st.booleans()) else draw(gen.floats(0.3, 3.0))
    LB = LA * ratio
    cls = draw(st.sampled_from(['none', 'partial', 'nested', 'touching', 'identical', 'partial', 'tilted', 'tilted_none']))
    gap = draw(gen.floats(0.01, 0.2)) * min(LA, LB) * draw(st.sampled_from([1.0, 1.0, -1.0]))
    tilt = 0.0
    # B is described in A's frame: A from (0,0) to (LA,0), outward normal (0,-1); B lies at y = -gap, anti-parallel
    if cls in ('partial', 'tilted'):
        f = draw(gen.floats(0.05, 0.95))
        x1 = LA - f * min(LA, LB) if draw(st.booleans()) else f * min(LA, LB) - LB
        if cls == 'tilted':
            tilt = draw(gen.floats(-1.0, 1.0))
    elif cls == 'nested':
        if LB < LA:
            x1 = draw(gen.floats(0.0, 1.0)) * (LA - LB)
        else:
            x1 = -draw(gen.floats(0.0, 1.0)) * (LB - LA)
    elif cls == 'touching':
        x1 = LA if draw(st.booleans()) else -LB
    elif cls == 'identical':
        LB = LA
        x1 = 0.0
        if draw(st.booleans()):
            gap = 0.0
    else:
        sep = (1.0 + draw(gen.floats(0.0, 3.0))) * max(LA, LB)
        x1 = LA + sep if draw(st.booleans()) else -LB - sep
        if cls == 'tilted_none':
            tilt = draw(gen.floats(-1.0, 1.0))
    s = draw(st.sampled_from([1e-9, 1e-7, 1e-5, 1e-3, 0.03]))
    th = draw(gen.angle())
    tr = draw(st.lists(gen.floats(-10, 10), min_size=2, max_size=2))
    return {'cls': cls, 'LA': LA, 'LB': LB, 'x1': x1, 'gap': gap, 'tilt': tilt, 's': s, 'theta': th, 'shift': tr}


def _pair(case):
    LA, LB, x1, gap, tilt = case['LA'], case['LB'], case['x1'], case['gap'], case['tilt']
    A = onp.array([[0.0, 0.0], [LA, 0.0]])
    # B anti-parallel to A: from (x1+LB, -gap) to (x1, -gap), rotated by tilt about its centre
    c = onp.array([x1 + 0.5 * LB, -gap])
    d = 0.5 * LB * onp.array([math.cos(tilt), math.sin(tilt)])
    Bm = onp.array([c + d, c - d])
    return A, Bm


def check_mortar(case):
    J = _jax()
    np = J['np']
    A, Bm = _pair(case)
    LA, LB, s, cls = case['LA'], case['LB'], case['s'], case['cls']
    R = gen.rot2(case['theta'])
    t = onp.array(case['shift']) * max(LA, LB)
    A2, B2 = A @ R.T + t, Bm @ R.T + t
    names = J['integrand_names']
    fails = []
    classes = [cls, 's=%g' % s]
    for nk in ('average', 'from_a'):
        v1 = onp.asarray(J['mortar_' + nk](np.array(A), np.array(Bm), s))
        v2 = onp.asarray(J['mortar_' + nk](np.array(A2), np.array(B2), s))
        data = dict(A=A.tolist(), B=Bm.tolist(), normal=nk, s=s, cls=cls, values=v1.tolist(), moved=v2.tolist())
        if not (onp.all(onp.isfinite(v1)) and onp.all(onp.isfinite(v2))):
            fails.append(Failure('finite', 'mortar integral non-finite (%s, %s normal)' % (cls, nk), **data))
            continue
        # g is a difference of coordinates: absolute rounding ~ ulp * coordinate magnitude after the motion
        gmax = abs(case['gap']) + 0.5 * LB * abs(math.sin(case['tilt'])) + 1e-300
        cm = onp.abs(t).max() + LA + LB          # coordinate magnitude: g is a difference of such numbers
        rnd = 1e-13 * cm * (LA + LB) * onp.array([1e-3, 1.0, 1e-3, 1e-3, gmax + 1e-13 * cm, 1.0])
        scale = onp.array([1.0, gmax, 1.0, 1.0, gmax ** 2, gmax]) * (LA + LB)
        # overlap end points are branch decisions (xi in [0,1]); a rigid motion perturbs them by rounding, which can move
        # an end by O(eps) only.  Coordinates up to ~10*L after the motion => relative rounding 1e-15*10
        tol_inv = 1e-9 * scale + rnd
        bad = onp.abs(v1 - v2) > tol_inv
        if cls == 'touching':
            bad = onp.abs(v1 - v2) > tol_inv + 4 * s * scale    # an end exactly on the other segment's end: either side
        if bad.any():
            k = int(onp.flatnonzero(bad)[0])
            fails.append(Failure('rigid-motion', 'integral of %s changes under a common rigid motion: %r -> %r (%s, %s normal)'
                                 % (names[k], float(v1[k]), float(v2[k]), cls, nk), **data))
        if cls in ('none', 'tilted_none'):
            if onp.any(v1 != 0.0) or onp.any(v2 != 0.0):
                fails.append(Failure('no-overlap-zero', 'segments do not overlap but the integrals are %r (%s normal)' % (v1.tolist(), nk), **data))
        # the overlap in the frame of the common normal, computed independently: both segments are projected along n onto the
        # tangent line; the ends of the common interval, their parametric coordinates on A and B and the gap n.(xB - xA) there
        tA = A[1] - A[0]
        tB = Bm[1] - Bm[0]
        nA = onp.array([tA[1], -tA[0]]) / onp.linalg.norm(tA)
        nB = onp.array([tB[1], -tB[0]]) / onp.linalg.norm(tB)
        n = nA if nk == 'from_a' else (nA - nB) / onp.linalg.norm(nA - nB)
        tv = onp.array([-n[1], n[0]])
        a0, a1, b0, b1 = A[0] @ tv, A[1] @ tv, Bm[0] @ tv, Bm[1] @ tv
        lo_, hi_ = max(min(a0, a1), min(b0, b1)), min(max(a0, a1), max(b0, b1))
        if hi_ - lo_ > 1e-6 * (LA + LB) and abs(a1 - a0) > 1e-6 * LA and abs(b1 - b0) > 1e-6 * LB:
            ref = []
            for tau in (lo_, hi_):
                xa_, xb_ = (tau - a0) / (a1 - a0), (tau - b0) / (b1 - b0)
                pa, pb = A[0] + xa_ * tA, Bm[0] + xb_ * tB
                ref.append((xa_, xb_, float(n @ (pb - pa))))
            ref.sort()
            xiA_l, xiB_l, g_l = [onp.asarray(o) for o in J['inter_' + nk](np.array(A), np.array(Bm))]
            for j in range(2):
                gtol = 1e-9 * (LA + LB + abs(ref[j][2]))
                if not (abs(xiA_l[j] - ref[j][0]) <= 1e-9 and abs(xiB_l[j] - ref[j][1]) <= 1e-9 and abs(g_l[j] - ref[j][2]) <= gtol):
                    fails.append(Failure('intersection', 'compute_intersection (%s normal, %s): end %d is (xiA, xiB, g) = (%.12g, %.12g, %.12g), '
                                         'projection along the common normal gives (%.12g, %.12g, %.12g)'
                                         % (nk, cls, j, xiA_l[j], xiB_l[j], g_l[j], ref[j][0], ref[j][1], ref[j][2]), **data))
                    break
        for k in (0, 2, 3, 4, 5):
            if v1[k] < -1e-13 * scale[k] - rnd[k]:
                fails.append(Failure('non-negative', 'integral of the non-negative integrand %s is %r (%s, %s normal)'
                                     % (names[k], float(v1[k]), cls, nk), **data))
        if case['tilt'] == 0.0:
            lo = max(0.0, case['x1'])
            hi = min(LA, case['x1'] + LB)
            ov = max(0.0, hi - lo)
            g = case['gap']
            tol = s * (LA + LB) * 1.01 + 1e-13 * (LA + LB)
            if abs(v1[0] - ov) > tol:
                fails.append(Failure('overlap-length', 'parallel pair: integral of 1 = %r, overlap length %r, smoothing allowance %.2e (%s, %s)'
                                     % (float(v1[0]), ov, tol, cls, nk), **data))
            if abs(v1[1] - g * ov) > tol * abs(g) + 1e-13 * (LA + LB) * abs(g):
                fails.append(Failure('gap-area', 'parallel pair: integral of g = %r, gap*overlap = %r (%s, %s)'
                                     % (float(v1[1]), g * ov, cls, nk), **data))
            if ov > 0 and abs((v1[2] + v1[3]) - v1[0]) > 1e-12 * (LA + LB):
                fails.append(Failure('partition', 'integral of xiA plus integral of (1-xiA) differs from integral of 1 (%s, %s)' % (cls, nk), **data))
    nt = cls in ('partial', 'tilted', 'touching')
    return Result(fails, classes=classes, nontrivial=nt, n_eval=4)


# ---------------------------------------------------------------------------------------------------
# nodal areas on two facing polylines
# ---------------------------------------------------------------------------------------------------

@st.composite
def area_cases(draw):
    nA = draw(st.integers(1, 4))
    nB = draw(st.integers(1, 4))
    # interior nodes on a 1e-6 grid: two nodes one ulp apart would collapse into a zero-length segment after scaling
    grid = gen.floats(0.05, 0.95).map(lambda v: round(v, 6))
    xa = sorted(set([0.0] + draw(st.lists(grid, min_size=nA - 1, max_size=nA - 1, unique=True)) + [1.0]))
    xb = sorted(set([0.0] + draw(st.lists(grid, min_size=nB - 1, max_size=nB - 1, unique=True)) + [1.0]))
    LA = draw(gen.logfloat(-1, 1))
    LB = LA * draw(gen.floats(0.3, 3.0))
    x1 = draw(gen.floats(-1.2, 1.2)) * LA
    gap = draw(gen.floats(0.01, 0.2)) * min(LA, LB)
    th = draw(gen.angle())
    tr = draw(st.lists(gen.floats(-5, 5), min_size=2, max_size=2))
    return {'xa': xa, 'xb': xb, 'LA': LA, 'LB': LB, 'x1': x1, 'gap': gap, 'theta': th, 'shift': tr}


def check_areas(case):
    J = _jax()
    np = J['np']
    M = J['M']
    LA, LB = case['LA'], case['LB']
    ca = onp.array([[x * LA, 0.0] for x in case['xa']])
    cb = onp.array([[case['x1'] + x * LB, -case['gap']] for x in case['xb']])
    na, nb = len(ca), len(cb)
    if min(onp.diff(ca[:, 0]).min(), onp.diff(cb[:, 0]).min()) < 1e-9 * max(LA, LB):
        return Result(inconclusive='zero-length-segment')       # degenerate surface mesh: outside the domain
    coords = onp.vstack([ca, cb])
    segA = onp.array([[i, i + 1] for i in range(na - 1)])
    segB = onp.array([[na + i + 1, na + i] for i in range(nb - 1)])      # anti-parallel
    neigh = onp.tile(onp.arange(na - 1), (nb - 1, 1))
    R = gen.rot2(case['theta'])
    t = onp.array(case['shift'])
    fails = []
    res = []
    for X in (coords, coords @ R.T + t):
        disp = onp.zeros_like(X)
        ar = onp.asarray(M.assemble_nodal_areas(np.array(X), np.array(disp), np.array(segA), np.array(segB), np.array(neigh),
                                                M.compute_average_normal))
        gp = onp.asarray(M.assemble_area_weighted_gaps(np.array(X), np.array(disp), np.array(segA), np.array(segB), np.array(neigh),
                                                       M.compute_average_normal))
        res.append((ar, gp))
    ov = max(0.0, min(LA, case['x1'] + LB) - max(0.0, case['x1']))
    ar, gp = res[0]
    nseg = (na - 1) * (nb - 1)
    tol = 1e-9 * (LA + LB) * nseg * 1.01 + 1e-12 * (LA + LB)
    data = dict(coords=coords.tolist(), segA=segA.tolist(), segB=segB.tolist(), areas=ar.tolist())
    if not onp.all(onp.isfinite(ar)):
        fails.append(Failure('finite', 'assemble_nodal_areas non-finite', **data))
    else:
        if abs(ar.sum() - ov) > tol:
            fails.append(Failure('nodal-area-sum', 'nodal areas sum to %r, overlap length is %r' % (float(ar.sum()), ov), **data))
        if onp.any(ar[:na] != 0.0):
            fails.append(Failure('nodal-area-support', 'areas assigned to nodes that are not on surface B', **data))
        if onp.any(ar < -1e-13 * (LA + LB)):
            fails.append(Failure('non-negative', 'negative nodal area', **data))
        if abs(gp.sum() - case['gap'] * ov) > tol * case['gap'] + 1e-12 * (LA + LB) * case['gap']:
            fails.append(Failure('gap-area', 'area-weighted gaps sum to %r, gap*overlap = %r' % (float(gp.sum()), case['gap'] * ov), **data))
        if onp.abs(res[1][0] - ar).max() > 1e-9 * (LA + LB):
            fails.append(Failure('rigid-motion', 'nodal areas change under a rigid motion by %.3e' % onp.abs(res[1][0] - ar).max(), **data))
    return Result(fails, classes=['nA%d' % (na - 1), 'nB%d' % (nb - 1), 'overlap' if ov > 0 else 'no-overlap'],
                  nontrivial=bool(0 < ov < min(LA, LB)), n_eval=4)


# ---------------------------------------------------------------------------------------------------
# penalty energy and level-set constraints on meshes
# ---------------------------------------------------------------------------------------------------

@st.composite
def levelset_cases(draw):
    mesh = draw(gen.lattice_mesh(fixed=(2, 2), affine=False, permute=True))
    coords = onp.array(mesh['coords'])
    nn = coords.shape[0]
    amp = draw(gen.logfloat(-6, 0)) * 0.3
    U = onp.array(draw(st.lists(gen.floats(-1, 1), min_size=2 * nn, max_size=2 * nn))).reshape(nn, 2) * amp
    kind = ['plane', 'corner', 'sphere'][draw(st.integers(0, 2))]
    where = ['mixed', 'clear', 'mixed', 'inside'][draw(st.integers(0, 3))]     # mesh occupies [0,1]^2
    lo, hi = {'mixed': (0.15, 0.85), 'clear': (1.2, 1.6), 'inside': (-0.6, -0.2)}[where]
    if kind == 'plane':                       # phi = yLoc - y
        par = [draw(gen.floats(lo, hi))]
    elif kind == 'corner':                    # phi = min(x - x0, y - y0)
        c = {'mixed': (0.15, 0.85), 'clear': (-0.6, -0.2), 'inside': (1.2, 1.6)}[where]
        par = [draw(gen.floats(*c)), draw(gen.floats(*c))]
    else:                                     # phi = r - R
        if where == 'mixed':
            par = [draw(gen.floats(0.2, 0.8)), draw(gen.floats(0.2, 0.8)), draw(gen.floats(0.2, 0.6))]
        elif where == 'clear':
            par = [draw(gen.floats(-1.5, -0.8)), draw(gen.floats(-1.5, -0.8)), draw(gen.floats(0.05, 0.5))]
        else:
            par = [draw(gen.floats(0.3, 0.7)), draw(gen.floats(0.3, 0.7)), draw(gen.floats(1.5, 3.0))]
    qdeg = draw(st.integers(1, 5))
    k = draw(gen.logfloat(-2, 4))
    return {'mesh': mesh, 'U': U.tolist(), 'kind': kind, 'par': par, 'qdeg': qdeg, 'stiffness': k}


def _boundary_edges(conns):
    cnt = {}
    for e, c in enumerate(conns):
        for sd in range(3):
            a, b = int(c[sd]), int(c[(sd + 1) % 3])
            cnt.setdefault((min(a, b), max(a, b)), []).append((e, sd))
    return onp.array([v[0] for v in cnt.values() if len(v) == 1])


def check_levelset(case):
    import scipy.special
    J = _jax()
    np = J['np']
    mesh = gen.build_mesh(case['mesh'])
    coords, conns = gen.mesh_arrays(case['mesh'])
    U = onp.array(case['U'])
    edges = _boundary_edges(conns)
    q = J['Q'].create_quadrature_rule_1D(case['qdeg'])
    LS = J['LS']
    par = case['par']
    if case['kind'] == 'plane':
        ls = lambda x: LS.plane(x, par[0])
        ref = lambda x: par[0] - x[:, 1]
    elif case['kind'] == 'corner':
        ls = lambda x: LS.corner(x, par[0], par[1])
        ref = lambda x: onp.minimum(x[:, 0] - par[0], x[:, 1] - par[1])
    else:
        ls = lambda x: LS.sphere(x, par[0], par[1], par[2])
        ref = lambda x: onp.hypot(x[:, 0] - par[0], x[:, 1] - par[1]) - par[2]
    n = int(math.ceil((case['qdeg'] + 1) / 2))
    xi, w = scipy.special.roots_sh_legendre(n)
    cur = coords + U
    phis = []
    for (e, sd) in edges:
        a = cur[conns[e][sd]]
        b = cur[conns[e][(sd + 1) % 3]]
        pts = a[None, :] + xi[:, None] * (b - a)[None, :]
        phis.append(ref(pts))
    phis = onp.array(phis)
    fails = []
    got = onp.asarray(J['LC'].compute_levelset_constraints(ls, np.array(U), mesh, q, np.array(edges)))
    scale = onp.abs(cur).max() + max(abs(p) for p in par)
    data = dict(kind=case['kind'], par=par, edges=edges.tolist())
    if got.shape != phis.shape:
        fails.append(Failure('constraint-shape', 'constraints shape %r, expected %r' % (got.shape, phis.shape), **data))
    elif onp.abs(got - phis).max() > 1e-13 * scale:
        i = onp.unravel_index(onp.argmax(onp.abs(got - phis)), got.shape)
        fails.append(Failure('constraint-values', 'level-set constraint %r differs from the obstacle function %r at the deformed sample point (edge %d, point %d)'
                             % (float(got[i]), float(phis[i]), i[0], i[1]), **data))
    got2 = onp.asarray(J['P'].evaluate_contact_constraints(ls, np.array(U), mesh, q, np.array(edges)))
    if got2.shape == phis.shape and onp.abs(got2 - phis).max() > 1e-13 * scale:
        fails.append(Failure('constraint-values', 'PenaltyContact.evaluate_contact_constraints differs from the obstacle function by %.3e'
                             % onp.abs(got2 - phis).max(), **data))
    E = float(J['P'].compute_total_penalty_contact_energy(ls, np.array(U), mesh, q, np.array(edges), case['stiffness']))
    pen = phis < -1e-13 * scale
    clear = phis > 1e-13 * scale
    if not E >= 0.0:
        fails.append(Failure('energy-non-negative', 'penalty energy %r' % E, **data))
    if pen.any() and not E > 0.0:
        fails.append(Failure('energy-zero-iff', 'a sample point penetrates (phi=%r) but the penalty energy is %r' % (float(phis[pen].min()), E), **data))
    if (clear | (phis >= 0)).all() and not pen.any() and (phis >= 0).all() and E != 0.0:
        fails.append(Failure('energy-zero-iff', 'no sample point penetrates but the penalty energy is %r' % E, **data))
    nt = bool(pen.any() and clear.any())
    return Result(fails, classes=[case['kind'], 'q%d' % case['qdeg'], 'penetrating' if pen.any() else 'clear'], nontrivial=nt, n_eval=3)


SUBCHECKS = [
    Sub('cpp', cpp_cases, check_cpp, quick=500, thorough=30000, shards_quick=4, shards_thorough=5,
        required=('strip', 'beyond_b', 'before_a', 'on_line_in', 'on_line_out', 'at_a', 'at_b', 'near_a', 'near_b')),
    Sub('mortar', mortar_cases, check_mortar, quick=800, thorough=30000, shards_quick=6, shards_thorough=6,
        required=('none', 'partial', 'nested', 'touching', 'identical', 'tilted', 'tilted_none')),
    Sub('areas', area_cases, check_areas, quick=35, thorough=3000, shards_quick=3, shards_thorough=3),
    Sub('levelset', levelset_cases, check_levelset, quick=150, thorough=5000, shards_quick=3, shards_thorough=2,
        required=('plane', 'corner', 'sphere', 'penetrating', 'clear')),
]
