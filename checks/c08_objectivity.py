"""C08 - elastic energies are objective, isotropic and stress-free at rest."""
import math

import numpy as onp
from hypothesis import strategies as st

from vlib.core import Sub, Result, Failure
from vlib import gen
from vlib import materials as mats

PROPERTY = 'C08'
EPS = gen.EPS
B = 4
RULE = ('For every model and option (linear elastic x 3 strain measures, neo-Hookean x 2, Gent, J2 x 3 kinematics x 3 hardening laws '
        '(+ rate sensitivity), 1- and 3-branch viscoelastic, phase-field threshold x 2) Hypothesis draws admissible constants, a batch of '
        'four deformation gradients F = R U (uniaxial strain along an in-plane axis, equibiaxial, dilation, simple shear, generic, '
        'plane-strain generic, identity; strain 1e-8..0.6, below 0.35 of yield for plastic models) and two proper rotations each. The '
        'energy and its jax.grad are evaluated by a single compiled call and inside jit(vmap). Oracles: W(QF)=W(F), W(FQ)=W(F), P F^T '
        'symmetric for finite-deformation formulations; W(0)=0, P(0)=0 and finiteness for every option. Non-trivial: rotation angle '
        '> 1e-3 and strain > 1e-9.')
ASSUMPTIONS = ['rounding allowance 1e3*ulp*stiffness*max(e, e^2) + 50*ulp*stiffness for energies (I1-3 style cancellations are absolute)',
               'plastic models are evaluated in their elastic regime (strain capped at 0.25*Y0/E)',
               'known finding D1 covers only failures of compiled evaluation that the op-by-op evaluation does not show']

FAMILIES = {
    'elastic': ['linear-elastic/linear', 'linear-elastic/green lagrange', 'linear-elastic/logarithmic', 'neohookean/adagio',
                'neohookean/coupled', 'gent'],
    'j2-small': ['j2/small/linear', 'j2/small/voce', 'j2/small/power law', 'j2/small/linear/rate'],
    'j2-large': ['j2/large/linear', 'j2/large/voce', 'j2/large/power law', 'j2/large/voce/rate'],
    'j2-seth': ['j2/seth/linear', 'j2/seth/voce', 'j2/seth/power law', 'j2/seth/power law/rate'],
    'visco': ['visco1', 'visco3'],
    'pf': ['pf-threshold/small', 'pf-threshold/large'],
}
_C = {}


def compiled(name):
    if name not in _C:
        import jax
        cfg = mats.CONFIGS[name]
        VG = jax.value_and_grad(mats.energy_fn(cfg))
        _C[name] = (jax.jit(VG), jax.jit(jax.vmap(VG, (0, None, None, None))), VG)
    return _C[name]


def KNOWN_D1(sub, case, failure):
    # compiled evaluation violates the clause, op-by-op evaluation of the same library functions satisfies it (relative
    # eigenvalue gap < 1e-4, or the measure-zero pivot-tie manifestation described in known_findings.json)
    return bool(failure.data.get('fusion_only') is True)


KNOWN_MATCH = {'D1': KNOWN_D1}


def make_cases(names):
    @st.composite
    def cases(draw):
        name = names[draw(st.integers(0, len(names) - 1))]
        cfg = mats.CONFIGS[name]
        pr = draw(mats.properties(cfg))
        cap = 0.6
        if cfg.family == 'j2':
            cap = 0.25 * pr['Y0'] / pr['E']
        if cfg.family == 'gent':
            cap = 0.3
        Fs = []
        for _ in range(B):
            f = draw(gen.defgrad(max_strain=cap, rotate=False))
            q1 = draw(gen.rotation3(('generic', 'inplane')))
            q2 = draw(gen.rotation3(('generic', 'inplane')))
            Fs.append({'cls': f['cls'], 'strain': f['strain'], 'F': f['F'], 'Q1': q1['R'], 'Q2': q2['R']})
        dt = draw(gen.logfloat(-4, 4))
        return {'model': name, 'props': pr, 'Fs': Fs, 'dt': dt}
    return cases


def rot_angle(Q):
    return math.acos(max(-1.0, min(1.0, (onp.trace(onp.asarray(Q)) - 1) / 2)))


def check(case):
    import jax
    import jax.numpy as np
    cfg = mats.CONFIGS[case['model']]
    single, batched, raw = compiled(case['model'])
    pv = np.array(case['props']['pvec'])
    K = case['props']['stiff']
    st0 = np.array(mats.library_initial_state(cfg, case['props']['pvec']))
    dt = case['dt']
    I = onp.eye(3)
    Hs, tags = [onp.zeros((3, 3))], [('rest', None)]
    for k, f in enumerate(case['Fs']):
        F = onp.array(f['F'])
        Q1, Q2 = onp.array(f['Q1']), onp.array(f['Q2'])
        Hs += [F - I, Q1 @ F - I, F @ Q2 - I]
        tags += [('F', k), ('QF', k), ('FQ', k)]
    Hs = onp.array(Hs)
    out = {}
    Wb, Pb = batched(np.array(Hs), st0, dt, pv)
    out['batched'] = (onp.asarray(Wb), onp.asarray(Pb))
    Ws, Ps = [], []
    for H in Hs:
        w, p = single(np.array(H), st0, dt, pv)
        Ws.append(float(w))
        Ps.append(onp.asarray(p))
    out['single'] = (onp.array(Ws), onp.array(Ps))
    fails = []
    keys = []
    classes = set([case['model']])

    def eager_eval(H):
        with jax.disable_jit():
            w, p = raw(np.array(H), st0, dt, pv)
        return float(w), onp.asarray(p)

    for mode in ('single', 'batched'):
        W, P = out[mode]
        # rest state, every option
        if not (onp.isfinite(W[0]) and onp.all(onp.isfinite(P[0]))):
            fails.append(Failure('rest-finite', '%s (%s): energy/stress not finite at the undeformed virgin state: W=%r' % (case['model'], mode, float(W[0])), mode=mode))
        else:
            if abs(W[0]) > 1e-14 * K:
                fails.append(Failure('rest-energy', '%s (%s): W(0) = %r (stiffness %.3g)' % (case['model'], mode, float(W[0]), K), mode=mode))
            if onp.abs(P[0]).max() > 1e-14 * K:
                fails.append(Failure('rest-stress', '%s (%s): |P(0)| = %r (stiffness %.3g)' % (case['model'], mode, float(onp.abs(P[0]).max()), K), mode=mode))
        for k, f in enumerate(case['Fs']):
            e = f['strain'] if f['cls'] != 'identity' else 0.0
            F = onp.array(f['F'])
            sv = onp.linalg.svd(F, compute_uv=False)
            relgap = float(min(sv[0] - sv[1], sv[1] - sv[2]) / sv[0]) * 2
            i0 = 1 + 3 * k
            data = dict(mode=mode, relgap=relgap, cls=f['cls'], F=f['F'], model=case['model'])
            if not (onp.all(onp.isfinite(W[i0:i0 + 3])) and onp.all(onp.isfinite(P[i0:i0 + 3]))):
                fl = Failure('finite', '%s (%s): energy/stress not finite for %s deformation, strain %.1e' % (case['model'], mode, f['cls'], e), **data)
                w_e, p_e = eager_eval(Hs[i0])
                fl.data['fusion_only'] = bool(onp.isfinite(w_e) and onp.all(onp.isfinite(p_e)))
                fails.append(fl)
                continue
            if not cfg.finite:
                continue
            tolW = (1e3 * EPS * max(e, e * e) + 50 * EPS) * K
            tolP = (1e3 * EPS * max(e, 1.0) * max(e, EPS) + 50 * EPS) * K * 10
            local = []
            if abs(W[i0 + 1] - W[i0]) > tolW:
                local.append(Failure('objectivity', '%s (%s): W(QF) - W(F) = %.3e (W = %.3e, allowance %.1e) for %s, strain %.1e'
                                     % (case['model'], mode, W[i0 + 1] - W[i0], W[i0], tolW, f['cls'], e), **data))
            if abs(W[i0 + 2] - W[i0]) > tolW:
                local.append(Failure('isotropy', '%s (%s): W(FQ) - W(F) = %.3e (W = %.3e, allowance %.1e) for %s, strain %.1e'
                                     % (case['model'], mode, W[i0 + 2] - W[i0], W[i0], tolW, f['cls'], e), **data))
            tau = P[i0] @ F.T
            asym = onp.abs(tau - tau.T).max()
            if asym > tolP:
                local.append(Failure('stress-symmetry', '%s (%s): |P F^T - F P^T| = %.3e (allowance %.1e) for %s, strain %.1e'
                                     % (case['model'], mode, asym, tolP, f['cls'], e), **data))
            if local:
                # does the op-by-op evaluation of the same library functions satisfy the same clauses?
                ev = [eager_eval(Hs[i0 + j]) for j in range(3)]
                ok = {'objectivity': abs(ev[1][0] - ev[0][0]) <= tolW, 'isotropy': abs(ev[2][0] - ev[0][0]) <= tolW,
                      'stress-symmetry': onp.abs(ev[0][1] @ F.T - F @ ev[0][1].T).max() <= tolP}
                for fl in local:
                    fl.data['fusion_only'] = bool(ok[fl.clause])
            fails += local
            if mode == 'single':
                classes.add(f['cls'])
                if e > 1e-9 and max(rot_angle(f['Q1']), rot_angle(f['Q2'])) > 1e-3:
                    keys.append(case['model'] + repr(f['F']) + repr(f['Q1']))
    return Result(fails, classes=sorted(classes), nontrivial=len(keys), n_eval=2 * len(Hs), keys=keys)


SUBCHECKS = [
    Sub(fam, make_cases(names), check, quick=150, thorough=6000, shards_quick=2 if fam in ('elastic', 'j2-large') else 1,
        shards_thorough=3 if fam in ('elastic', 'j2-large', 'visco') else 2, required=tuple(names), budget_quick=170)
    for fam, names in FAMILIES.items()
]
