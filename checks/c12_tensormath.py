"""C12 - symmetric-tensor eigen-decomposition, tensor functions, derivative rules, helpers, dense sqrtm/logm."""
import math
from fractions import Fraction

import numpy as onp
from hypothesis import strategies as st

from vlib.core import Sub, Result, Failure
from vlib import gen

PROPERTY = 'C12'
EPS = gen.EPS
RULE = ('Symmetric 3x3 tensors are built as Q diag(lambda) Q^T from spectrum classes (distinct, nearly repeated with '
        'relative gap 1e-17..1e-1, exactly double low/high, triple, nearly triple, rank 1/2, traceless), orientation classes '
        '(generic quaternion, in-plane block, axis permutation) and magnitudes 1e-20..1e20; every case is a batch of six '
        'tensors evaluated both by a single compiled call and inside jit(vmap). Oracles: reconstruction/orthonormality/'
        'ordering/numpy eigvalsh for the eigen-decomposition; defining identities and rotation equivariance for '
        'sqrt/exp/log/pow; Frechet derivatives from a 40-digit mpmath Daleckii-Krein reference for the JVP rules; exact '
        'rational arithmetic for det(A+I)-1; scipy expm/logm for the dense routines. A tensor is non-trivial when it is '
        'neither diagonal nor a multiple of the identity.')
ASSUMPTIONS = ['mpmath 1.3 eigsy at 40 digits is the reference for Frechet derivatives',
               'numpy.linalg.eigvalsh is the reference for eigenvalues (tolerance 1e-12*|A|)',
               'tolerances: 1e-10 relative for reconstruction/orthonormality and identities (times the condition number of '
               'the identity used), 1e-8 relative for derivative rules']

B = 6
POS_CLASSES = ('distinct', 'near_double', 'double_low', 'double_high', 'triple', 'near_triple')
_J = {}


def _jax():
    if not _J:
        import jax
        import jax.numpy as np
        from optimism import TensorMath as T
        from optimism import LinAlg
        _J.update(jax=jax, np=np, T=T, LinAlg=LinAlg)
        _J['eig1'] = jax.jit(T.eigen_sym33_unit)
        _J['eigB'] = jax.jit(jax.vmap(T.eigen_sym33_unit))
        for name, f in (('sqrt', T.sqrt_symm), ('exp', T.exp_symm), ('log', T.log_symm)):
            _J[name + '1'] = jax.jit(f)
            _J[name + 'B'] = jax.jit(jax.vmap(f))
            _J['d' + name + '1'] = jax.jit(lambda A, E, f=f: jax.jvp(f, (A,), (E,))[1])
            _J['d' + name + 'B'] = jax.jit(jax.vmap(lambda A, E, f=f: jax.jvp(f, (A,), (E,))[1]))
        _J['pow1'] = jax.jit(T.pow_symm)
        _J['powB'] = jax.jit(jax.vmap(T.pow_symm, (0, None)))
        _J['dpow1'] = jax.jit(lambda A, E, m: jax.jvp(lambda X: T.pow_symm(X, m), (A,), (E,))[1])
        _J['dpowB'] = jax.jit(jax.vmap(lambda A, E, m: jax.jvp(lambda X: T.pow_symm(X, m), (A,), (E,))[1], (0, 0, None)))
        _J['detpIm1'] = jax.jit(T.detpIm1)
        _J['detpIm1B'] = jax.jit(jax.vmap(T.detpIm1))
        _J['inv'] = jax.jit(T.inv)
        _J['polar'] = jax.jit(T.right_polar_decomposition)
        _J['polarB'] = jax.jit(jax.vmap(T.right_polar_decomposition))
        _J['sqrtm'] = jax.jit(LinAlg.sqrtm)
        _J['logm'] = jax.jit(LinAlg.logm_iss)
    return _J


def relgap(A):
    w = onp.linalg.eigvalsh(onp.asarray(A, dtype=float))
    s = max(abs(w[0]), abs(w[2]), 1e-300)
    return float(min(w[1] - w[0], w[2] - w[1]) / s), w


def is_nontrivial(A):
    A = onp.asarray(A)
    off = abs(A[0, 1]) + abs(A[0, 2]) + abs(A[1, 2])
    return bool(off > 1e-12 * onp.abs(A).max())


def KNOWN_D1(sub, case, failure):
    """D1: a COMPILED evaluation (jit(vmap), or a jit in which XLA fuses the eigen routine with its consumers) is wrong
    for a tensor with relative eigenvalue gap below 1e-4 while the op-by-op (un-jitted) evaluation of the same library
    routine on the same input satisfies the same oracle clause.  A fault in the formulas themselves fails op-by-op as
    well and is therefore never covered."""
    d = failure.data
    return bool(d.get('relgap') is not None and d.get('fusion_only') is True and (d['relgap'] < 1e-4 or d.get('tie_only') is True))


_PERT = onp.array([[1.0, 2.0, -1.0], [2.0, -3.0, 1.0], [-1.0, 1.0, 2.0]])


def perturbed(A):
    """Three symmetric perturbations of relative size 1e-13: the second manifestation of D1 is an exact tie in one of the
    pivot selections of eigen_sym33_non_unit (structured orientations); it disappears under any such perturbation, whereas a
    formula fault does not (and fails op-by-op as well)."""
    A = onp.asarray(A, dtype=float)
    s = onp.abs(A).max() * 1e-13
    return [A + k * s * _PERT for k in (1.0, -1.7, 2.3)]


KNOWN_MATCH = {'D1': KNOWN_D1}


# ----------------------------------------------------------------------------------------------------
# eigen-decomposition
# ----------------------------------------------------------------------------------------------------

@st.composite
def eig_cases(draw):
    ts = [draw(gen.sym33(mag_exp=(-20, 20))) for _ in range(B)]
    return {'tensors': ts}


def _check_eig_one(A, lam, V, mode, cls):
    A = onp.asarray(A)
    nA = onp.abs(A).sum(axis=1).max()
    g, w = relgap(A)
    data = dict(mode=mode, relgap=g, A=A.tolist(), cls=cls)
    if 0 < nA < 1e-200:
        return None            # (near-)subnormal magnitudes: XLA flushes subnormals to zero; outside the domain
    if not (onp.all(onp.isfinite(lam)) and onp.all(onp.isfinite(V))):
        return Failure('finite', 'eigen_sym33_unit (%s) returned non-finite values for %s tensor' % (mode, cls), **data)
    if nA == 0:
        if not onp.all(lam == 0):
            return Failure('reconstruct', 'zero tensor: eigenvalues %r' % lam.tolist(), **data)
        nA = 1.0
    oerr = onp.abs(V.T @ V - onp.eye(3)).max()
    if oerr > 1e-10:
        return Failure('orthonormal', 'eigen_sym33_unit (%s, %s, relgap %.1e): |V^T V - I| = %.2e' % (mode, cls, g, oerr), **data)
    rerr = onp.abs((V * lam) @ V.T - A).max()
    if rerr > 1e-10 * nA:
        return Failure('reconstruct', 'eigen_sym33_unit (%s, %s, relgap %.1e): |V L V^T - A|/|A| = %.2e' % (mode, cls, g, rerr / nA), **data)
    if not (lam[0] <= lam[1] <= lam[2]):
        return Failure('ascending', 'eigenvalues not ascending: %r' % lam.tolist(), **data)
    verr = onp.abs(lam - w).max()
    if verr > 1e-12 * nA:
        return Failure('eigenvalues', 'eigenvalues differ from numpy eigvalsh by %.2e |A| (%s, %s)' % (verr / nA, mode, cls), **data)
    return None


def check_eig(case):
    J = _jax()
    np = J['np']
    As = onp.array([t['A'] for t in case['tensors']])
    fails = []
    lamB, VB = J['eigB'](np.array(As))
    lamB, VB = onp.asarray(lamB), onp.asarray(VB)
    classes = set()
    keys = []
    for i, t in enumerate(case['tensors']):
        l1, V1 = J['eig1'](np.array(As[i]))
        for mode, lam, V in (('single', onp.asarray(l1), onp.asarray(V1)), ('batched', lamB[i], VB[i])):
            f = _check_eig_one(As[i], lam, V, mode, t['cls'])
            if f is not None:
                if mode == 'batched':
                    with J['jax'].disable_jit():
                        le, Ve = J['T'].eigen_sym33_unit(np.array(As[i]))
                    fe = _check_eig_one(As[i], onp.asarray(le), onp.asarray(Ve), 'eager', t['cls'])
                    f.data['fusion_only'] = fe is None or fe.clause != f.clause
                    if f.data.get('relgap', 1) >= 1e-4 and f.data['fusion_only']:
                        ok = True
                        for Ap in perturbed(As[i]):
                            Asp = As.copy()
                            Asp[i] = Ap
                            lp, Vp = J['eigB'](np.array(Asp))
                            fp = _check_eig_one(Ap, onp.asarray(lp)[i], onp.asarray(Vp)[i], 'batched', t['cls'])
                            ok = ok and (fp is None or fp.clause != f.clause)
                        f.data['tie_only'] = ok
                fails.append(f)
        classes.add(t['cls'])
        classes.add('orient-' + t['orient'])
        if is_nontrivial(As[i]):
            keys.append(repr(t['A']))
    return Result(fails, classes=sorted(classes), nontrivial=len(keys), n_eval=2 * B, keys=keys)


# ----------------------------------------------------------------------------------------------------
# tensor functions: identities and equivariance
# ----------------------------------------------------------------------------------------------------

@st.composite
def func_cases(draw):
    ts = [draw(gen.sym33(classes=POS_CLASSES, positive=True, mag_exp=(-3, 3))) for _ in range(B)]
    rots = [draw(gen.rotation3()) for _ in range(B)]
    m = draw(st.sampled_from([0.25, 0.5, 1.0, 2.0, 3.0, -1.0, 1.5, -0.5]))
    expscale = draw(st.sampled_from([0.1, 1.0, 3.0]))
    return {'tensors': ts, 'rots': [r['R'] for r in rots], 'm': m, 'expscale': expscale}


def _run(mode, name, X, *a):
    """Evaluate library function `name` on the stack X (n,3,3) in the given execution mode."""
    J = _jax()
    np = J['np']
    if mode == 'batched':
        return onp.asarray(J[name + 'B'](np.array(X), *a))
    if mode == 'single':
        if name.startswith('d'):
            return onp.array([onp.asarray(J[name + '1'](np.array(x), np.array(e), *a[1:])) for x, e in zip(X, a[0])])
        return onp.array([onp.asarray(J[name + '1'](np.array(x), *a)) for x in X])
    T = J['T']
    raw = {'sqrt': T.sqrt_symm, 'exp': T.exp_symm, 'log': T.log_symm, 'pow': T.pow_symm}
    with J['jax'].disable_jit():           # op-by-op: every intermediate is materialised exactly once
        if name.startswith('d'):
            f = raw[name[1:]]
            return onp.array([onp.asarray(J['jax'].jvp(lambda Z: f(Z, *a[1:]), (np.array(x),), (np.array(e),))[1])
                              for x, e in zip(X, a[0])])
        return onp.array([onp.asarray(raw[name](np.array(x), *a)) for x in X])


def _funcs_outputs(mode, As, Bs, AsR, m):
    o = {'sq': _run(mode, 'sqrt', As), 'lg': _run(mode, 'log', As), 'ex': _run(mode, 'exp', Bs),
         'pw': _run(mode, 'pow', As, m), 'pwi': _run(mode, 'pow', As, -m),
         'sqR': _run(mode, 'sqrt', AsR), 'lgR': _run(mode, 'log', AsR)}
    o['exlg'] = _run(mode, 'exp', o['lg'])
    o['lgex'] = _run(mode, 'log', o['ex'])
    return o


def _funcs_oracle(i, o, A, Bm, Q, m, mode, cls):
    fails = []
    w = onp.linalg.eigvalsh(A)
    g = float(min(w[1] - w[0], w[2] - w[1]) / w[2])
    nA = onp.abs(A).max()
    cond = w[2] / w[0]
    data = dict(mode=mode, relgap=g, A=A.tolist(), cls=cls)

    def bad(clause, err, tol, what, d=data):
        if not (err <= tol):
            fails.append(Failure(clause, '%s (%s, %s, relgap %.1e): error %.3e > %.3e' % (what, mode, cls, g, err, tol), **dict(d)))
    S, L, P, Pi = o['sq'][i], o['lg'][i], o['pw'][i], o['pwi'][i]
    bad('sqrt', onp.abs(S @ S - A).max(), 1e-10 * nA, 'sqrt_symm(A)^2 = A')
    bad('explog', onp.abs(o['exlg'][i] - A).max(), 1e-10 * nA * (1 + onp.abs(onp.log(w)).max()), 'exp_symm(log_symm(A)) = A')
    wb = onp.linalg.eigvalsh(Bm)
    gb = float(min(wb[1] - wb[0], wb[2] - wb[1]) / max(abs(wb[0]), abs(wb[2])))
    datab = dict(mode=mode, relgap=min(g, gb), A=Bm.tolist(), cls=cls)
    bad('logexp', onp.abs(o['lgex'][i] - Bm).max(), 1e-10 * (1 + onp.abs(wb).max()) * math.exp(wb[2] - wb[0]),
        'log_symm(exp_symm(B)) = B', datab)
    bad('pow-inverse', onp.abs(P @ Pi - onp.eye(3)).max(), 1e-10 * cond ** abs(m), 'pow(A,m) pow(A,-m) = I, m=%g' % m)
    if m == 2.0:
        bad('pow-square', onp.abs(P - A @ A).max(), 1e-10 * nA * nA, 'pow(A,2) = A A')
    if m == 1.0:
        bad('pow-one', onp.abs(P - A).max(), 1e-10 * nA, 'pow(A,1) = A')
    if m == 0.5:
        bad('pow-half', onp.abs(P - S).max(), 1e-10 * onp.abs(S).max(), 'pow(A,1/2) = sqrt(A)')
    bad('equivariance', onp.abs(o['sqR'][i] - Q @ S @ Q.T).max(), 1e-10 * onp.abs(S).max() * max(1.0, math.sqrt(cond)),
        'sqrt(Q A Q^T) = Q sqrt(A) Q^T')
    bad('equivariance', onp.abs(o['lgR'][i] - Q @ L @ Q.T).max(), 1e-10 * (1 + onp.abs(onp.log(w)).max()) * cond,
        'log(Q A Q^T) = Q log(A) Q^T')
    for M_, nm in ((S, 'sqrt'), (L, 'log'), (o['ex'][i], 'exp'), (P, 'pow')):
        if not onp.all(onp.isfinite(M_)):
            fails.append(Failure('finite', '%s_symm returned non-finite entries (%s, %s)' % (nm, mode, cls), **data))
    return fails


def check_funcs(case):
    As = onp.array([t['A'] for t in case['tensors']])
    Qs = onp.array(case['rots'])
    m = case['m']
    fails = []
    keys = []
    classes = set(['m=%g' % m])
    # matrices for exp: symmetric, spectrum inside [-1.5, 1.5]*expscale
    Bs = onp.array([(a / onp.abs(onp.linalg.eigvalsh(a)).max()) * case['expscale'] * 3.0 - 1.5 * case['expscale'] * onp.eye(3)
                    for a in As])
    AsR = onp.einsum('nij,njk,nlk->nil', Qs, As, Qs)
    AsR = onp.array([gen.snap(a) for a in 0.5 * (AsR + onp.transpose(AsR, (0, 2, 1)))])      # dynamic range policy of gen.snap
    for mode in ('single', 'batched'):
        o = _funcs_outputs(mode, As, Bs, AsR, m)
        for i, t in enumerate(case['tensors']):
            fs = _funcs_oracle(i, o, As[i], Bs[i], Qs[i], m, mode, t['cls'])
            if fs:
                oe = _funcs_outputs('eager', As[i:i + 1], Bs[i:i + 1], AsR[i:i + 1], m)
                eager = set(f.clause for f in _funcs_oracle(0, oe, As[i], Bs[i], Qs[i], m, 'eager', t['cls']))
                for f in fs:
                    f.data['fusion_only'] = f.clause not in eager
                if min(f.data['relgap'] for f in fs) >= 1e-4 and not eager:
                    still = set()
                    for Ap in perturbed(As[i]):
                        Asp = As.copy()
                        Asp[i] = Ap
                        Bsp = onp.array([(a / onp.abs(onp.linalg.eigvalsh(a)).max()) * case['expscale'] * 3.0 - 1.5 * case['expscale'] * onp.eye(3)
                                         for a in Asp])
                        AsRp = onp.einsum('nij,njk,nlk->nil', Qs, Asp, Qs)
                        AsRp = 0.5 * (AsRp + onp.transpose(AsRp, (0, 2, 1)))
                        op = _funcs_outputs(mode, Asp, Bsp, AsRp, m)
                        still |= set(f.clause for f in _funcs_oracle(i, op, Asp[i], Bsp[i], Qs[i], m, mode, t['cls']))
                    for f in fs:
                        f.data['tie_only'] = f.clause not in still
            fails += fs
            if mode == 'single':
                classes.add(t['cls'])
                if is_nontrivial(As[i]):
                    keys.append(repr(t['A']) + repr(m))
    return Result(fails, classes=sorted(classes), nontrivial=len(keys), n_eval=2 * B * 9, keys=keys)


# ----------------------------------------------------------------------------------------------------
# derivative rules vs high-precision Daleckii-Krein reference
# ----------------------------------------------------------------------------------------------------

def frechet_ref(A, E, fname, m=None):
    import mpmath as mp
    mp.mp.dps = 40
    lam, Q = mp.eigsy(mp.matrix(onp.asarray(A).tolist()))
    lam = [lam[i] for i in range(3)]
    if fname == 'sqrt':
        f, df = mp.sqrt, lambda x: 1 / (2 * mp.sqrt(x))
    elif fname == 'exp':
        f, df = mp.exp, mp.exp
    elif fname == 'log':
        f, df = mp.log, lambda x: 1 / x
    else:
        f, df = (lambda x: x ** mp.mpf(m)), (lambda x: mp.mpf(m) * x ** (mp.mpf(m) - 1))
    W = Q.T * mp.matrix(onp.asarray(E).tolist()) * Q
    scale = max(abs(l) for l in lam)
    G = mp.zeros(3, 3)
    for i in range(3):
        for j in range(3):
            if abs(lam[i] - lam[j]) <= mp.mpf(10) ** (-32) * scale:
                G[i, j] = df((lam[i] + lam[j]) / 2)
            else:
                G[i, j] = (f(lam[i]) - f(lam[j])) / (lam[i] - lam[j])
    H = mp.zeros(3, 3)
    for i in range(3):
        for j in range(3):
            H[i, j] = G[i, j] * W[i, j]
    L = Q * H * Q.T
    return onp.array([[float(L[i, j]) for j in range(3)] for i in range(3)])


@st.composite
def jvp_cases(draw):
    fname = draw(st.sampled_from(['sqrt', 'exp', 'log', 'pow']))
    intpow = False
    if fname == 'pow':
        classes = ('distinct_wide', 'double_low', 'double_high', 'triple')
        # pow_symm is documented as the m-fold matrix product of ANY symmetric matrix: with an integer power m >= 2 the
        # argument may be indefinite or singular, so the derivative rule must also hold there (well separated eigenvalues)
        intpow = draw(st.booleans())
        if intpow:
            classes = ('rank_deficient', 'indefinite', 'semidefinite', 'distinct_wide')
    else:
        classes = ('distinct', 'near_double', 'double_low', 'double_high', 'triple', 'near_triple')
    ts = []
    for _ in range(3):
        cls = draw(st.sampled_from(classes))
        if fname == 'pow':
            # pow_symm documents its derivative as accurate only for well separated or EXACTLY equal eigenvalues;
            # exactly equal eigenvalues are only representable for axis-aligned tensors
            mag = draw(gen.logfloat(-2, 2))
            a = draw(gen.floats(0.5, 1.0))
            if cls == 'distinct_wide':
                lam = [a, a * (1.5 + draw(gen.floats(0.0, 0.5))), a * (2.6 + draw(gen.floats(0.0, 1.0)))]
                rot = draw(gen.rotation3())
            elif cls in ('rank_deficient', 'indefinite', 'semidefinite'):
                b = a * (1.5 + draw(gen.floats(0.0, 0.5)))
                c = a * (2.6 + draw(gen.floats(0.0, 1.0)))
                lam = {'rank_deficient': [-a, 0.0, b], 'indefinite': [-b, a, c], 'semidefinite': [0.0, a, c]}[cls]
                if draw(st.booleans()):
                    lam = [-v for v in lam]
                rot = draw(gen.rotation3(('axis', 'inplane', 'generic')))   # axis-aligned keeps the zero eigenvalue exact
            else:
                c = a * (1.5 + draw(gen.floats(0.0, 1.5)))
                lam = {'double_low': [a, a, c], 'double_high': [a, c, c], 'triple': [a, a, a]}[cls]
                rot = draw(gen.rotation3(('axis',)))
            Q = onp.array(rot['R'])
            A = (Q * (onp.array(lam) * mag)) @ Q.T
            ts.append({'cls': cls, 'orient': rot['kind'], 'A': (0.5 * (A + A.T)).tolist()})
        else:
            t = draw(gen.sym33(classes=(cls,), positive=True, mag_exp=(-2, 2)))
            ts.append({'cls': t['cls'], 'orient': t['orient'], 'A': t['A']})
    Es = [draw(gen.sym33_direction()) for _ in range(3)]
    m = draw(st.sampled_from([0.25, 0.5, 2.0, 3.0, -1.0, 1.5]))
    if intpow:
        m = draw(st.sampled_from([2.0, 3.0]))
    return {'fname': fname, 'tensors': ts, 'dirs': Es, 'm': m}


def _jvp_oracle(out, ref, mode, g, A, E, cls, fname, m):
    data = dict(mode=mode, relgap=g, A=A.tolist(), E=E.tolist(), cls=cls, fname=fname, m=m)
    if not onp.all(onp.isfinite(out)):
        return Failure('jvp-finite', 'JVP of %s_symm non-finite (%s, %s, relgap %.1e)' % (fname, mode, cls, g), **data)
    nref = onp.abs(ref).max()
    err = onp.abs(out - ref).max()
    floor = 0.0
    if cls in ('rank_deficient', 'indefinite', 'semidefinite'):
        # with a zero eigenvalue the derivative can vanish identically (direction along the null vector): rounding floor
        # relative to the natural size m |A|^(m-1) |E| of the derivative
        floor = 1e-13 * abs(m) * onp.abs(A).max() ** (m - 1) * onp.abs(E).max()
    if err > 1e-8 * nref + floor:
        return Failure('jvp', 'JVP of %s_symm%s differs from the Frechet derivative by %.2e relative (%s, %s, relgap %.1e)'
                       % (fname, '(m=%g)' % m if fname == 'pow' else '', err / max(nref, 1e-300), mode, cls, g), **data)
    return None


def check_jvp(case):
    fname, m = case['fname'], case['m']
    As = onp.array([t['A'] for t in case['tensors']])
    Es = onp.array(case['dirs'])
    if fname == 'exp':      # keep exp well scaled: eigenvalues in about [-3, 3]
        As = onp.array([a / onp.abs(onp.linalg.eigvalsh(a)).max() * 3.0 for a in As])
    args = (m,) if fname == 'pow' else ()
    outs = {mode: _run(mode, 'd' + fname, As, Es, *args) for mode in ('single', 'batched')}
    fails = []
    keys = []
    classes = set([fname])
    for i, t in enumerate(case['tensors']):
        ref = frechet_ref(As[i], Es[i], fname, m)
        g, w = relgap(As[i])
        for mode in ('single', 'batched'):
            f = _jvp_oracle(outs[mode][i], ref, mode, g, As[i], Es[i], t['cls'], fname, m)
            if f is not None:
                oe = _run('eager', 'd' + fname, As[i:i + 1], Es[i:i + 1], *args)[0]
                fe = _jvp_oracle(oe, ref, 'eager', g, As[i], Es[i], t['cls'], fname, m)
                f.data['fusion_only'] = fe is None
                if g >= 1e-4 and fe is None:
                    ok = True
                    for Ap in perturbed(As[i]):
                        Asp = As.copy()
                        Asp[i] = Ap
                        op = _run(mode, 'd' + fname, Asp, Es, *args)[i]
                        ok = ok and _jvp_oracle(op, frechet_ref(Ap, Es[i], fname, m), mode, g, Ap, Es[i], t['cls'], fname, m) is None
                    f.data['tie_only'] = ok
                fails.append(f)
        classes.add(fname + ':' + t['cls'])
        if is_nontrivial(As[i]):
            keys.append(fname + repr(As[i].tolist()) + repr(Es[i].tolist()))
    return Result(fails, classes=sorted(classes), nontrivial=len(keys), n_eval=6, keys=keys)


# ----------------------------------------------------------------------------------------------------
# helpers: detpIm1, inv, polar decomposition
# ----------------------------------------------------------------------------------------------------

@st.composite
def helper_cases(draw):
    mag = draw(gen.logfloat(-12, 2))
    kind = draw(st.sampled_from(['general', 'symmetric', 'skew-heavy', 'traceless', 'planestrain']))
    v = draw(st.lists(gen.floats(-1, 1), min_size=9, max_size=9))
    A = onp.array(v).reshape(3, 3)
    if kind == 'symmetric':
        A = 0.5 * (A + A.T)
    elif kind == 'skew-heavy':
        A = 0.5 * (A - A.T) + 1e-3 * A
    elif kind == 'traceless':
        A = A - onp.trace(A) / 3 * onp.eye(3)
    elif kind == 'planestrain':
        A[2, :] = 0
        A[:, 2] = 0
    A = A * mag
    F = draw(gen.defgrad(strain_exp=(-8, 0), max_strain=0.7))
    s = sorted(draw(st.lists(gen.loguniform(-2, 2), min_size=3, max_size=3)))
    R1 = draw(gen.rotation3())['R']
    R2 = draw(gen.rotation3())['R']
    return {'kind': kind, 'A': A.tolist(), 'F': F['F'], 'Fcls': F['cls'], 'sv': s, 'R1': R1, 'R2': R2}


def check_helpers(case):
    J = _jax()
    np = J['np']
    fails = []
    A = onp.array(case['A'])
    # exact det(A+I)-1 with rational arithmetic on the same floats
    Fr = [[Fraction(float(A[i, j])) + (1 if i == j else 0) for j in range(3)] for i in range(3)]
    det = (Fr[0][0] * (Fr[1][1] * Fr[2][2] - Fr[1][2] * Fr[2][1]) - Fr[0][1] * (Fr[1][0] * Fr[2][2] - Fr[1][2] * Fr[2][0])
           + Fr[0][2] * (Fr[1][0] * Fr[2][1] - Fr[1][1] * Fr[2][0]))
    exact = float(det - 1)
    nA = onp.abs(A).sum()
    scale = max(nA, nA ** 2, nA ** 3)
    got1 = float(J['detpIm1'](np.array(A)))
    gotB = float(J['detpIm1B'](np.array([A, A]))[1])
    for mode, got in (('single', got1), ('batched', gotB)):
        if not abs(got - exact) <= 1e-13 * scale:
            fails.append(Failure('detpIm1', 'detpIm1 (%s): %r vs exact %r, |A|=%.1e (error %.2e |A|)' % (mode, got, exact, nA, abs(got - exact) / scale),
                                 A=A.tolist(), mode=mode))
    # inverse
    M = onp.array(case['R1']) @ onp.diag(case['sv']) @ onp.array(case['R2']).T
    cond = case['sv'][2] / case['sv'][0]
    Mi = onp.asarray(J['inv'](np.array(M)))
    e1 = onp.abs(M @ Mi - onp.eye(3)).max()
    e2 = onp.abs(Mi @ M - onp.eye(3)).max()
    if not max(e1, e2) <= 1e-12 * cond * 10:
        fails.append(Failure('inv', 'A inv(A) - I = %.2e (cond %.1e)' % (max(e1, e2), cond), A=M.tolist()))
    # polar decomposition
    F = onp.array(case['F'])
    w = onp.linalg.svd(F, compute_uv=False)
    g = float(min(w[0] - w[1], w[1] - w[2]) / w[0]) * 2      # gap of C = F^T F eigenvalues ~ 2*gap of stretches
    for mode in ('single', 'batched'):
        if mode == 'single':
            R, U = J['polar'](np.array(F))
        else:
            Rb, Ub = J['polarB'](np.array([F, F]))
            R, U = Rb[1], Ub[1]
        R, U = onp.asarray(R), onp.asarray(U)
        data = dict(mode=mode, relgap=g, F=F.tolist(), cls=case['Fcls'])
        if not (onp.all(onp.isfinite(R)) and onp.all(onp.isfinite(U))):
            if g < 1e-4:
                with J['jax'].disable_jit():
                    Re, Ue = [onp.asarray(o) for o in J['T'].right_polar_decomposition(np.array(F))]
                data['fusion_only'] = bool(onp.all(onp.isfinite(Re)) and onp.all(onp.isfinite(Ue))
                                           and onp.abs(Re @ Ue - F).max() <= 1e-10 * (w[0] / w[2]) * onp.abs(F).max())
            fails.append(Failure('polar-finite', 'polar decomposition non-finite (%s, %s)' % (mode, case['Fcls']), **data))
            continue
        c = w[0] / w[2]
        errs = {'R U = F': onp.abs(R @ U - F).max() / onp.abs(F).max(),
                'R^T R = I': onp.abs(R.T @ R - onp.eye(3)).max(),
                'U = U^T': onp.abs(U - U.T).max() / onp.abs(U).max()}
        bad = [(what, e) for what, e in errs.items() if not e <= 1e-10 * c]
        if bad and g < 1e-4:
            with J['jax'].disable_jit():
                Re, Ue = J['T'].right_polar_decomposition(np.array(F))
            Re, Ue = onp.asarray(Re), onp.asarray(Ue)
            ee = max(onp.abs(Re @ Ue - F).max() / onp.abs(F).max(), onp.abs(Re.T @ Re - onp.eye(3)).max(),
                     onp.abs(Ue - Ue.T).max() / onp.abs(Ue).max())
            data['fusion_only'] = bool(ee <= 1e-10 * c)
        for what, e in bad:
            fails.append(Failure('polar', 'right_polar_decomposition (%s, %s): %s violated by %.2e' % (mode, case['Fcls'], what, e), **data))
        if onp.linalg.eigvalsh(0.5 * (U + U.T)).min() <= 0:
            fails.append(Failure('polar', 'U not positive definite (%s)' % mode, **data))
    nt = bool(onp.abs(A - onp.diag(onp.diag(A))).max() > 0)
    return Result(fails, classes=[case['kind'], 'F-' + case['Fcls']], nontrivial=nt, n_eval=6)


# ----------------------------------------------------------------------------------------------------
# dense square root and logarithm
# ----------------------------------------------------------------------------------------------------

@st.composite
def dense_cases(draw, nmax=6):
    n = draw(st.integers(2, nmax))
    kind = draw(st.sampled_from(['spd', 'nonsymmetric', 'near-identity', 'repeated']))
    condexp = draw(gen.floats(0.0, 6.0))
    lam = onp.array(sorted(draw(st.lists(gen.floats(0.0, 1.0), min_size=n, max_size=n))))
    lam = 10.0 ** (-condexp * lam)
    if kind == 'repeated' and n >= 2:
        lam[1] = lam[0]
    if kind == 'near-identity':
        lam = 1.0 + 1e-6 * (lam - 0.5)
    G = onp.array(draw(st.lists(gen.floats(-1, 1), min_size=n * n, max_size=n * n))).reshape(n, n)
    Q, _ = onp.linalg.qr(G + 2 * onp.eye(n))
    if kind == 'nonsymmetric':
        Sm = onp.eye(n) + 0.3 * G / max(1.0, onp.abs(G).sum(axis=1).max())
        A = Sm @ onp.diag(lam) @ onp.linalg.inv(Sm)
    else:
        A = (Q * lam) @ Q.T
        A = 0.5 * (A + A.T)
    mag = draw(gen.logfloat(-2, 2))
    return {'n': n, 'kind': kind, 'A': (A * mag).tolist()}


def check_dense(case):
    import scipy.linalg
    J = _jax()
    np = J['np']
    A = onp.array(case['A'])
    fails = []
    ev = onp.linalg.eigvals(A)
    if ev.real.min() <= 0:
        return Result(inconclusive='spectrum-not-positive')
    cond = onp.linalg.cond(A)
    X = onp.asarray(J['sqrtm'](np.array(A)))
    nA = onp.abs(A).max()
    if not onp.all(onp.isfinite(X)):
        fails.append(Failure('sqrtm', 'LinAlg.sqrtm returned non-finite entries (n=%d, %s, cond %.1e)' % (case['n'], case['kind'], cond)))
    else:
        e = onp.abs(X @ X - A).max() / nA
        if not e <= 1e-11 * max(cond, 10.0):
            fails.append(Failure('sqrtm', 'LinAlg.sqrtm: |X X - A|/|A| = %.2e (n=%d, %s, cond %.1e)' % (e, case['n'], case['kind'], cond)))
    Lg = onp.asarray(J['logm'](np.array(A)))
    if not onp.all(onp.isfinite(Lg)):
        fails.append(Failure('logm', 'LinAlg.logm_iss returned non-finite entries (n=%d, %s, cond %.1e)' % (case['n'], case['kind'], cond)))
    else:
        e = onp.abs(scipy.linalg.expm(Lg) - A).max() / nA
        # stated accuracy: the upstream tests claim 7-8 decimals for logm_iss (Pade degree selection), 10-12 for sqrtm
        if not e <= 1e-7 * max(cond, 10.0):
            fails.append(Failure('logm', 'LinAlg.logm_iss: |expm(X) - A|/|A| = %.2e (n=%d, %s, cond %.1e)' % (e, case['n'], case['kind'], cond)))
        ref = scipy.linalg.logm(A)
        e2 = onp.abs(Lg - ref).max() / max(onp.abs(ref).max(), 1e-300)
        if onp.all(onp.isfinite(ref)) and not e2 <= 1e-7 * max(cond, 10.0) + 64 * EPS * cond / max(onp.abs(ref).max(), 1e-300):
            fails.append(Failure('logm', 'LinAlg.logm_iss differs from scipy logm by %.2e relative (n=%d, %s, cond %.1e)' % (e2, case['n'], case['kind'], cond)))
    return Result(fails, classes=['n%d' % case['n'], case['kind']], nontrivial=bool(case['n'] >= 2), n_eval=2)


SUBCHECKS = [
    Sub('eig', eig_cases, check_eig, quick=1500, thorough=20000, shards_quick=5, shards_thorough=6,
        required=gen.SPECTRUM_CLASSES + ('orient-generic', 'orient-inplane', 'orient-axis')),
    Sub('funcs', func_cases, check_funcs, quick=300, thorough=5000, shards_quick=4, shards_thorough=4),
    Sub('jvp', jvp_cases, check_jvp, quick=600, thorough=8000, shards_quick=4, shards_thorough=4,
        required=('sqrt', 'exp', 'log', 'pow', 'log:near_double', 'sqrt:double_high', 'exp:triple', 'pow:rank_deficient',
                  'pow:indefinite', 'pow:semidefinite')),
    Sub('helpers', helper_cases, check_helpers, quick=1000, thorough=15000, shards_quick=2, shards_thorough=1),
    Sub('dense', dense_cases, check_dense, quick=300, thorough=4000, shards_quick=1, shards_thorough=1),
]
