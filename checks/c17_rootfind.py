"""C17 - safeguarded scalar root finder: bracket contract and differentiability."""
import math

import numpy as onp
from hypothesis import strategies as st

from vlib.core import Sub, Result, Failure
from vlib import gen

PROPERTY = 'C17'
EPS = gen.EPS
RULE = ('Hypothesis draws a function family with analytically known roots (monotone cubic, exp(kx)-c, steep power '
        'x^m-c with m<=50, tanh, product-form cubic polynomial with up to three roots in the bracket, flat (x-r)^3 and '
        '(x-r)^5, end-point-root (x-b)*g(x)), its parameters, a bracket (either orientation, width 1e-6..1e6, with or '
        'without sign change), an initial guess (inside, outside, at the ends), x_tol/r_tol/max_iters, and the execution '
        'mode (jit, vmap over a batch of brackets, un-jitted call). Oracle: known roots / re-evaluated residual; NaN '
        'exactly when no sign change and no end-point root; gradient of the root vs the closed-form implicit-function '
        'value. Non-trivial: the solve needed >= 3 iterations (so both Newton and bisection logic ran) or took a special '
        'exit (end-point root, no sign change, iteration cap).')
ASSUMPTIONS = ['function values at the bracket ends have magnitude in [1e-20, 1e20] (the sign test multiplies them)',
               'x_tol is at least 16 ulp of the bracket scale (a tolerance below resolution is not admissible)',
               'NaN with converged=False is the documented failure exit when max_iters is below the rtsafe worst '
               'case; only counted then']

FAMILIES = ('cubic', 'exp', 'power', 'tanh', 'poly3', 'flat3', 'flat5', 'endroot')
NPARAM = 4
_J = {}


def fam_eval(np, fam, x, th):
    """f(x; theta) written once, used with jax.numpy by the library and with numpy by the oracle."""
    if fam == 'cubic':          # th: a>0, b>0, c, scale
        return th[3] * (th[0] * x ** 3 + th[1] * x - th[2])
    if fam == 'exp':            # th: k, c>0, scale
        return th[2] * (np.exp(th[0] * x) - th[1])
    if fam == 'power':          # th: m, c>0, scale  (x>0)
        return th[2] * (x ** th[0] - th[1])
    if fam == 'tanh':           # th: k, r, t, scale
        return th[3] * (np.tanh(th[0] * (x - th[1])) - th[2])
    if fam == 'poly3':          # th: r1, r2, r3, scale
        return th[3] * (x - th[0]) * (x - th[1]) * (x - th[2])
    if fam == 'flat3':          # th: r, scale
        return th[1] * (x - th[0]) ** 3
    if fam == 'flat5':
        return th[1] * (x - th[0]) ** 5
    if fam == 'endroot':        # th: b, k, scale     f = (x-b)*(1+k^2 (x-b)^2)
        return th[2] * (x - th[0]) * (1.0 + (th[1] * (x - th[0])) ** 2)
    raise ValueError(fam)


def roots_of(fam, th):
    if fam == 'cubic':
        a, b, c = th[0], th[1], th[2]
        rr = onp.roots([a, 0.0, b, -c])
        r = [float(z.real) for z in rr if abs(z.imag) < 1e-9 * max(1.0, abs(z))]
        # polish
        out = []
        for x in r:
            for _ in range(4):
                x = x - (a * x ** 3 + b * x - c) / (3 * a * x * x + b)
            out.append(x)
        return out
    if fam == 'exp':
        return [math.log(th[1]) / th[0]]
    if fam == 'power':
        return [th[1] ** (1.0 / th[0])]
    if fam == 'tanh':
        return [th[1] + math.atanh(th[2]) / th[0]]
    if fam == 'poly3':
        return [th[0], th[1], th[2]]
    if fam in ('flat3', 'flat5', 'endroot'):
        return [th[0]]


def dfdx_dfdth(fam, x, th):
    """closed-form partial derivatives (numpy) at x: (f_x, [f_theta_i])"""
    th = [float(t) for t in th]
    if fam == 'cubic':
        a, b, c, s = th
        return s * (3 * a * x * x + b), [s * x ** 3, s * x, -s, a * x ** 3 + b * x - c]
    if fam == 'exp':
        k, c, s = th[:3]
        return s * k * math.exp(k * x), [s * x * math.exp(k * x), -s, math.exp(k * x) - c, 0.0]
    if fam == 'power':
        m, c, s = th[:3]
        return s * m * x ** (m - 1), [s * x ** m * math.log(x), -s, x ** m - c, 0.0]
    if fam == 'tanh':
        k, r, t, s = th
        sech2 = 1.0 - math.tanh(k * (x - r)) ** 2
        return s * k * sech2, [s * (x - r) * sech2, -s * k * sech2, -s, math.tanh(k * (x - r)) - t]
    if fam == 'poly3':
        r1, r2, r3, s = th
        fx = s * ((x - r2) * (x - r3) + (x - r1) * (x - r3) + (x - r1) * (x - r2))
        return fx, [-s * (x - r2) * (x - r3), -s * (x - r1) * (x - r3), -s * (x - r1) * (x - r2),
                    (x - r1) * (x - r2) * (x - r3)]
    return None, None


def f_noise(fam, x, th):
    """Rounding-noise level of f at x: 64 ulp of the sum of absolute values of the terms that are added.
    Product-form families are evaluated with small *relative* error, so their sign is exact (noise 0)."""
    th = [float(t) for t in th]
    try:
        if fam == 'cubic':
            a, b, c, s = th
            return 64 * EPS * abs(s) * (abs(a * x ** 3) + abs(b * x) + abs(c))
        if fam == 'exp':
            k, c, s = th[:3]
            return 64 * EPS * abs(s) * (math.exp(k * x) * (1 + abs(k * x)) + abs(c))
        if fam == 'power':
            m, c, s = th[:3]
            return 64 * EPS * abs(s) * (x ** m * (1 + m) + abs(c))
        if fam == 'tanh':
            k, r, t, s = th
            return 64 * EPS * abs(s) * (1 + abs(t) + abs(k * (x - r)))
    except OverflowError:
        return float('inf')
    return 0.0


def _jax():
    if not _J:
        import jax
        import jax.numpy as np
        from optimism import ScalarRootFind
        _J['np'] = np
        _J['jax'] = jax
        _J['SRF'] = ScalarRootFind
        for fam in FAMILIES:
            def solve(th, x0, bracket, max_iters, x_tol, r_tol, fam=fam):
                settings = ScalarRootFind.Settings(max_iters, x_tol, r_tol)
                x, info = ScalarRootFind.find_root(lambda x: fam_eval(np, fam, x, th), x0, bracket, settings)
                return x, (info.converged, info.iterations, info.residual_norm, info.correction_norm)
            _J['solve_' + fam] = jax.jit(solve)
            _J['vsolve_' + fam] = jax.jit(jax.vmap(solve, (None, 0, 0, None, None, None)))
            _J['grad_' + fam] = jax.jit(jax.grad(lambda *a, s=solve: s(*a)[0]))
            _J['f_' + fam] = jax.jit(lambda x, th, fam=fam: fam_eval(np, fam, x, th))
    return _J


@st.composite
def cases(draw):
    fam = draw(st.sampled_from(FAMILIES))
    scale = draw(gen.logfloat(-6, 6, signed=True))
    center = draw(st.one_of(st.just(0.0), gen.logfloat(-3, 3, signed=True)))
    width = draw(gen.logfloat(-6, 6))
    if fam == 'cubic':
        th = [draw(gen.logfloat(-3, 3)), draw(gen.logfloat(-3, 3)), draw(gen.logfloat(-3, 3, signed=True)), scale]
        root = roots_of(fam, th)[0]
    elif fam == 'exp':
        k = draw(gen.logfloat(-2, 1, signed=True))
        root = draw(gen.floats(-20.0, 20.0)) / abs(k) / max(1.0, abs(k)) if abs(k) > 1 else draw(gen.floats(-20, 20))
        c = math.exp(k * root)
        th = [k, c, scale, 0.0]
        root = roots_of(fam, th)[0]
    elif fam == 'power':
        m = float(draw(st.sampled_from([1.5, 2.0, 3.0, 7.0, 20.0, 50.0])))
        c = draw(gen.logfloat(-6, 6))
        th = [m, c, scale, 0.0]
        root = roots_of(fam, th)[0]
    elif fam == 'tanh':
        k = draw(gen.logfloat(-3, 3))
        r = center
        t = draw(gen.floats(-0.9, 0.9))
        th = [k, r, t, scale]
        root = roots_of(fam, th)[0]
    elif fam == 'poly3':
        r1 = center
        g1 = draw(gen.logfloat(-3, 3))
        g2 = draw(gen.logfloat(-3, 3))
        th = [r1, r1 + g1, r1 + g1 + g2, scale]
        root = th[draw(st.integers(0, 2))]
    elif fam in ('flat3', 'flat5'):
        th = [center, scale, 0.0, 0.0]
        root = center
    else:
        th = [center, draw(gen.logfloat(-3, 3)), scale, 0.0]
        root = center
    # bracket
    kind = draw(st.sampled_from(['around', 'around', 'around', 'nosign', 'endroot_lo', 'endroot_hi']))
    if fam == 'endroot' and kind == 'around':
        kind = draw(st.sampled_from(['endroot_lo', 'endroot_hi']))
    frac = draw(gen.floats(0.001, 0.999))
    if kind == 'around':
        lo, hi = root - frac * width, root + (1 - frac) * width
    elif kind == 'nosign':
        lo, hi = root + 0.1 * width + frac * width, root + 0.1 * width + (1 + frac) * width
        if fam == 'poly3':       # stay clear of the other roots: go to the left of the smallest / right of largest
            lo, hi = th[2] + 0.1 * width, th[2] + (0.1 + frac) * width + width
    elif kind == 'endroot_lo':
        lo, hi = root, root + width
    else:
        lo, hi = root - width, root
    if fam == 'power':
        lo = min(max(lo, root * 1e-3), root * 1e3)
        hi = min(max(hi, lo * (1 + 1e-6) + 1e-300), root * 2e3)
    if fam == 'exp':            # keep exp(k x) finite
        lim = 300.0 / abs(th[0])
        lo, hi = max(lo, -lim), min(hi, lim)
        if not lo < hi:
            lo, hi = root - 1.0, root + 1.0
    if fam == 'poly3' and kind == 'around':
        pass
    flip = draw(st.booleans())
    bracket = [hi, lo] if flip else [lo, hi]
    gk = draw(st.sampled_from(['inside', 'lo', 'hi', 'below', 'above', 'root', 'other-root', 'far-below']))
    w = hi - lo
    # 'other-root': a root of f OUTSIDE the bracket (several-root families) - the start residual is zero there, yet the
    # result has to lie inside the bracket; 'far-below': well outside the bracket (for x^m - c outside the domain of f)
    others = [r for r in roots_of(fam, [float(t) for t in th]) if not (lo <= r <= hi)]
    x0 = {'inside': lo + draw(gen.floats(0, 1)) * w, 'lo': lo, 'hi': hi, 'below': lo - w, 'above': hi + 10 * w,
          'root': root, 'other-root': others[0] if others else lo - 0.5 * w, 'far-below': lo - 100 * w - 1.0}[gk]
    big = max(abs(lo), abs(hi), 1e-300)
    ulp = big * EPS
    x_tol = draw(gen.logfloat(-14, -2)) * max(w, ulp)
    # The documented criterion is on the last change of x.  It bounds the distance to the root by a small
    # multiple of x_tol only while the Newton step is comparable with that distance: for exp(kx)-c the step
    # far from the root is 1/k, for x^m-c it is x/m, so x_tol is kept below a tenth of those scales.
    if fam == 'exp':
        x_tol = min(x_tol, 0.1 / abs(th[0]))
    if fam == 'power':
        x_tol = min(x_tol, 0.1 * root / max(th[0], 1.0))
    x_tol = max(x_tol, 16 * ulp)
    r_tol = draw(st.sampled_from([0.0, 0.0, 1e-10, 1e-6])) * abs(scale)
    L = max(1, int(math.ceil(math.log2(max(w / x_tol, 2.0)))))
    ample = 4 * L + 10
    max_iters = draw(st.sampled_from([ample, ample, ample, 1, 3, max(1, L // 2)]))
    mode = draw(st.sampled_from(['jit', 'jit', 'vmap', 'plain']))
    newton_budget = False
    if fam == 'exp' and kind == 'around' and draw(st.booleans()):
        # Newton acceleration must actually work: at the tightest admissible tolerance pure bisection needs ~48 steps;
        # on the unchanged tree this smooth convex family never needed more than 23 (5000 generated cases), so a
        # budget of 40 iterations has to suffice.  A change that silently degrades the method to bisection is caught.
        x_tol = 16 * ulp
        if w >= big / 8:
            max_iters, ample, newton_budget = 40, 40, True
    return {'fam': fam, 'theta': th, 'bracket': bracket, 'x0': x0, 'x_tol': x_tol, 'r_tol': r_tol,
            'max_iters': max_iters, 'ample': ample, 'mode': mode, 'bkind': kind, 'gkind': gk,
            'newton_budget': newton_budget}


_PLAIN = [0]


def check(case):
    J = _jax()
    np = J['np']
    fam = case['fam']
    th = np.array(case['theta'], dtype=float)
    b = case['bracket']
    lo, hi = min(b), max(b)
    fl = float(J['f_' + fam](b[0], th))
    fh = float(J['f_' + fam](b[1], th))
    if not (math.isfinite(fl) and math.isfinite(fh)):
        return Result(inconclusive='nonfinite-f')
    for v in (fl, fh):
        if v != 0.0 and not (1e-20 <= abs(v) <= 1e20):
            return Result(inconclusive='f-scale-outside-domain', classes=('skipped-scale',))
    nl, nh = f_noise(fam, b[0], case['theta']), f_noise(fam, b[1], case['theta'])
    sl = 0 if abs(fl) <= nl else (1 if fl > 0 else -1)
    sh = 0 if abs(fh) <= nh else (1 if fh > 0 else -1)
    exact_end_root = (nl == 0.0 and fl == 0.0) or (nh == 0.0 and fh == 0.0)
    ambiguous = (not exact_end_root) and (sl == 0 or sh == 0)      # an end value at rounding-noise level
    sign_change = (sl * sh < 0)
    end_root = exact_end_root
    fails = []
    mode = case['mode']
    args = (th, float(case['x0']), np.array(b, dtype=float), case['max_iters'], case['x_tol'], case['r_tol'])
    if mode == 'jit':
        x, (conv, iters, res, corr) = J['solve_' + fam](*args)
    elif mode == 'vmap':
        w = hi - lo
        x0s = np.array([case['x0'], lo + 0.5 * w, case['x0']])
        bs = np.array([b, b, [b[1], b[0]]], dtype=float)
        xs, (convs, its, ress, corrs) = J['vsolve_' + fam](th, x0s, bs, case['max_iters'], case['x_tol'], case['r_tol'])
        x, conv, iters = xs[0], convs[0], its[0]
        extra = [float(v) for v in onp.asarray(xs)[1:]]
    else:
        SRF = J['SRF']
        # every un-jitted call traces a fresh closure; drop JAX's compilation caches now and then so that a long campaign
        # does not accumulate gigabytes of compiled while-loops per worker
        _PLAIN[0] += 1
        if _PLAIN[0] % 200 == 0:
            J['jax'].clear_caches()
        x, info = SRF.find_root(lambda z: fam_eval(np, fam, z, th), float(case['x0']), np.array(b, dtype=float),
                                SRF.get_settings(max_iters=case['max_iters'], x_tol=case['x_tol'], r_tol=case['r_tol']))
        conv, iters = info.converged, info.iterations
    x = float(x)
    conv = bool(conv)
    iters = int(iters)
    results = [x] + (extra if mode == 'vmap' else [])
    roots = roots_of(fam, [float(t) for t in case['theta']])
    mult = {'flat3': 3, 'flat5': 5}.get(fam, 1)
    classes = [fam, mode, case['bkind'], 'guess-' + case['gkind']] + (['newton-budget'] if case.get('newton_budget') else [])
    special = None
    for idx, xr in enumerate(results):
        tag = '' if idx == 0 else ' (vmap lane %d)' % idx
        if ambiguous:
            special = 'ambiguous-end'
            if math.isnan(xr):
                continue
        elif not sign_change and not end_root:
            special = 'no-sign-change'
            # an end whose residual meets a positive r_tol is a root at the requested tolerance: the finder may return
            # it ("if an end point is itself a root it is returned") or report the missing sign change with NaN
            if any(case['r_tol'] > 0 and abs(fv) <= case['r_tol'] and xr == bb for bb, fv in zip(b, (fl, fh))):
                special = 'end-within-r_tol'
                continue
            if not math.isnan(xr):
                fails.append(Failure('nan-without-sign-change', 'returned %r although f has the same sign at both ends '
                                     '(f=%r,%r)%s' % (xr, fl, fh, tag)))
            continue
        if end_root and not ambiguous:
            special = 'end-root'
            ok_vals = [bb for bb, fv in zip(b, (fl, fh)) if fv == 0.0 or (case['r_tol'] > 0 and abs(fv) <= case['r_tol'])]
            if not any(xr == v for v in ok_vals):
                fails.append(Failure('end-point-root', 'end point %r is a root but %r was returned%s' % (ok_vals, xr, tag)))
            continue
        if math.isnan(xr):
            if case['max_iters'] >= case['ample']:
                fails.append(Failure('nan-with-sign-change', 'NaN although f changes sign over the bracket and '
                                     'max_iters=%d >= 4*log2(width/x_tol)+10%s' % (case['max_iters'], tag)))
            else:
                special = 'iteration-cap'
            continue
        if not (lo <= xr <= hi):
            fails.append(Failure('outside-bracket', 'returned %r outside [%r, %r]%s' % (xr, lo, hi, tag)))
            continue
        fx = float(J['f_' + fam](xr, th))
        dist = min(abs(xr - r) for r in roots)
        tol = 10.0 * mult * max(case['x_tol'], 4 * EPS * max(abs(xr), abs(lo), abs(hi)))
        # a point where the computed residual is zero / at rounding-noise level is as good a root as the
        # floating-point function has (e.g. exp(k x) - 1 evaluates to exactly 0 on a whole interval)
        noise = f_noise(fam, xr, case['theta'])
        if not ((case['r_tol'] > 0 and abs(fx) <= case['r_tol']) or abs(fx) <= noise or dist <= tol):
            fails.append(Failure('tolerance', 'returned %r: nearest root at distance %.3e > %.3e and |f|=%.3e, r_tol=%r%s'
                                 % (xr, dist, tol, abs(fx), case['r_tol'], tag)))
    if conv != (not math.isnan(x)):
        fails.append(Failure('flag', 'converged=%r but x=%r' % (conv, x)))
    # derivative of the root with respect to the parameters
    did_grad = False
    if (not fails and (sign_change or end_root) and not ambiguous and not math.isnan(x) and fam in ('cubic', 'exp', 'power', 'tanh', 'poly3')
            and case['max_iters'] >= case['ample']):
        fx, fth = dfdx_dfdth(fam, x, case['theta'])
        if fx is not None and abs(fx) > 1e-6 * max(abs(v) for v in fth + [1e-300]) / max(hi - lo, 1e-300) * 1e-6 and fx != 0:
            g = onp.asarray(J['grad_' + fam](*args))
            ref = onp.array([-ft / fx for ft in fth])
            did_grad = True
            # residual at x contributes  |f(x)| * d/dtheta(1/f_x) ~ relative x_tol; keep a relative bound
            err = onp.abs(g - ref)
            bound = 1e-8 * onp.abs(ref) + 1e-7 * onp.abs(ref).max() + 1e-300
            if fam == 'power':
                bound = bound * 50          # pow(x, m) itself is accurate to ~m ulp only
            # the derivative with respect to the overall scale is -(f/scale)/f_x, i.e. the residual at the returned root itself:
            # pure rounding noise of the cancelling terms
            isc = {'cubic': 3, 'exp': 2, 'power': 2, 'tanh': 3, 'poly3': 3}[fam]
            sc = abs(float(case['theta'][isc]))
            bound[isc] += 4 * f_noise(fam, x, case['theta']) / max(sc * abs(fx), 1e-300)
            if not onp.all(onp.isfinite(g)) or (err > bound).any():
                i = int(onp.argmax(err - bound))
                fails.append(Failure('gradient', 'd root/d theta[%d] = %r, implicit-function value %r (root %r)'
                                     % (i, float(g[i]), float(ref[i]), x), grad=g.tolist(), ref=ref.tolist()))
    if special:
        classes.append(special)
    if did_grad:
        classes.append('gradient-checked')
    if iters >= 3:
        classes.append('iters>=3')
    return Result(fails, classes=classes, nontrivial=bool(iters >= 3 or special), n_eval=len(results))


SUBCHECKS = [
    Sub('root', cases, check, quick=700, thorough=30000, shards_quick=16, shards_thorough=16,
        required=FAMILIES + ('jit', 'vmap', 'plain', 'no-sign-change', 'end-root', 'iteration-cap',
                             'gradient-checked', 'iters>=3', 'newton-budget'), budget_quick=170),
]
