"""C14 - degree-of-freedom bookkeeping is a lossless partition for every BC set."""
import itertools

import numpy as onp
from hypothesis import strategies as st

from vlib.core import Sub, Result, Failure
from vlib import gen

PROPERTY = 'C14'
RULE = ('Hypothesis draws a mesh (lattice with jitter/permutation, Delaunay with holes, structured; '
        'element order 1-3), the number of fields per node (1-3), named node sets (random subsets, '
        'with repeated entries, empty and full sets) and a list of EssentialBC(nodeSet, component) '
        'with overlaps and repeats; sub-check exhaustive_small enumerates every one of the 2^8 BC '
        'patterns on a 4-node/2-field mesh and 2^9 on a 3-node/3-field mesh. A case is non-trivial '
        'when some element has at least one constrained and one unconstrained dof. Oracle: exact '
        'set/array equality against a brute-force (node, component) table; assembly against a dense '
        'brute-force scatter with integer-valued symmetric element blocks (exact).')
ASSUMPTIONS = ['DofManager reads only functionSpace.mesh; the FunctionSpace object handed to it is a '
               'genuine optimism.FunctionSpace.FunctionSpace whose shape arrays are placeholders',
               'row/column orientation of the COO maps is not fixed by the property: element blocks '
               'used for the assembly oracle are symmetric']


def _fs_for(mesh):
    from optimism import FunctionSpace, QuadratureRule
    import jax.numpy as np
    q = QuadratureRule.create_quadrature_rule_on_triangle(1)
    z = np.zeros((1, 1, 1))
    return FunctionSpace.FunctionSpace(z, np.zeros((1, 1)), np.zeros((1, 1, 1, 2)), mesh, q, False)


@st.composite
def cases(draw):
    nobc = draw(st.integers(0, 11)) == 11
    order = draw(st.sampled_from([1, 1, 2, 3]))
    mesh = draw(gen.any_mesh(small=True))
    dim = draw(st.integers(1, 3))
    coords, conns = gen.mesh_arrays(mesh)
    nv = coords.shape[0]
    # number of nodes after elevation: vertices + edges*(p-1) + elements*interior
    ne = conns.shape[0]
    edges = set()
    for c in conns:
        for a, b in ((0, 1), (1, 2), (2, 0)):
            edges.add((min(c[a], c[b]), max(c[a], c[b])))
    nint = (order - 1) * (order - 2) // 2
    nn = nv + len(edges) * (order - 1) + ne * nint
    nsets = 0 if nobc else draw(st.integers(1, 4))
    nodeSets = {}
    for k in range(nsets):
        kind = draw(st.sampled_from(['subset', 'subset', 'repeats', 'subset', 'full', 'empty']))
        if kind == 'empty':
            s = []
        elif kind == 'full':
            s = list(range(nn))
        elif kind == 'subset':
            bits = draw(st.integers(1, 2 ** nn - 1))
            s = [i for i in range(nn) if bits >> i & 1]
            if draw(st.booleans()):
                s = list(draw(st.permutations(s)))
        else:
            s = draw(st.lists(st.integers(0, nn - 1), min_size=1, max_size=2 * nn))
        nodeSets['ns%d' % k] = s
    ebcs = []
    if nsets:
        ebcs = draw(st.lists(st.tuples(st.sampled_from(sorted(nodeSets)), st.integers(0, dim - 1)),
                             min_size=1, max_size=6))
    kseed = draw(st.lists(st.integers(-3, 3), min_size=8, max_size=8))
    return {'mesh': mesh, 'order': order, 'dim': dim, 'nodeSets': nodeSets, 'ebcs': [list(e) for e in ebcs],
            'kseed': kseed}


def _exhaustive_cases():
    out = []
    m4 = {'kind': 'structured', 'Nx': 2, 'Ny': 2, 'xExtent': [0.0, 1.0], 'yExtent': [0.0, 1.0]}
    for bits in range(256):
        ns = {'c0': [n for n in range(4) if bits >> (2 * n) & 1],
              'c1': [n for n in range(4) if bits >> (2 * n + 1) & 1]}
        out.append({'mesh': m4, 'order': 1, 'dim': 2, 'nodeSets': ns, 'ebcs': [['c0', 0], ['c1', 1]],
                    'kseed': [1, -2, 3, 1, 0, 2, -1, 3], 'exhaustive': 'm4f2-%d' % bits})
    m3 = {'kind': 'lattice', 'nx': 1, 'ny': 1, 'coords': [[0.0, 0.0], [1.0, 0.0], [0.0, 1.0]],
          'conns': [[0, 1, 2]]}
    for bits in range(512):
        ns = {'c%d' % c: [n for n in range(3) if bits >> (3 * n + c) & 1] for c in range(3)}
        out.append({'mesh': m3, 'order': 1, 'dim': 3, 'nodeSets': ns,
                    'ebcs': [['c0', 0], ['c1', 1], ['c2', 2]],
                    'kseed': [2, 1, -3, 1, 1, 2, -1, 0], 'exhaustive': 'm3f3-%d' % bits})
    return out


def check(case):
    import jax.numpy as np
    from optimism import FunctionSpace, SparseMatrixAssembler
    dim = case['dim']
    nodeSets = {k: np.array(onp.array(v, dtype=int)) for k, v in case['nodeSets'].items()}
    mesh = gen.build_mesh(case['mesh'], order=case['order'], nodeSets=nodeSets, copyNodeSets=True) \
        if case['order'] > 1 else gen.build_mesh(case['mesh'], nodeSets=nodeSets)
    nn = mesh.coords.shape[0]
    conns = onp.asarray(mesh.conns)
    # all node-set entries refer to existing nodes by construction
    for v in case['nodeSets'].values():
        if len(v) and max(v) >= nn:
            raise AssertionError('generator produced out-of-range node set: %d >= %d' % (max(v), nn))
    ebcs = [FunctionSpace.EssentialBC(nodeSet=n, component=c) for n, c in case['ebcs']]
    dm = FunctionSpace.DofManager(_fs_for(mesh), dim, ebcs)

    # brute-force table
    isBc = onp.zeros((nn, dim), dtype=bool)
    for n, c in case['ebcs']:
        for node in case['nodeSets'][n]:
            isBc[node, c] = True
    ndof = nn * dim
    fails = []
    unk = onp.asarray(dm.unknownIndices)
    bc = onp.asarray(dm.bcIndices)
    if not onp.array_equal(onp.sort(onp.concatenate([unk, bc])), onp.arange(ndof)):
        fails.append(Failure('partition', 'unknownIndices and bcIndices do not partition range(n*dim)'))
    exp_bc = onp.flatnonzero(isBc.ravel())
    exp_unk = onp.flatnonzero(~isBc.ravel())
    if not fails and not (onp.array_equal(bc, exp_bc) and onp.array_equal(unk, exp_unk)):
        fails.append(Failure('indices', 'bc/unknown indices differ from the (node, component) table'))
    if dm.get_bc_size() != int(isBc.sum()) or dm.get_unknown_size() != int((~isBc).sum()):
        fails.append(Failure('sizes', 'get_bc_size/get_unknown_size %d/%d vs %d/%d'
                             % (dm.get_bc_size(), dm.get_unknown_size(), isBc.sum(), (~isBc).sum())))
    if type(dm.get_bc_size()) is not int or type(dm.get_unknown_size()) is not int:
        fails.append(Failure('sizes', 'sizes are not Python ints'))
    if fails:
        return Result(fails, classes=('structure-fail',), nontrivial=True)

    # round trips (all entries distinct so any permutation is visible)
    U = onp.arange(ndof, dtype=float).reshape(nn, dim) * 1.25 + 0.375
    Uj = np.array(U)
    Uu = dm.get_unknown_values(Uj)
    Ub = dm.get_bc_values(Uj)
    if Uu.shape != (exp_unk.size,) or Ub.shape != (exp_bc.size,):
        fails.append(Failure('roundtrip', 'shapes of split values'))
    elif not (onp.array_equal(onp.asarray(Uu), U.ravel()[exp_unk]) and
              onp.array_equal(onp.asarray(Ub), U.ravel()[exp_bc])):
        fails.append(Failure('split', 'get_unknown_values/get_bc_values do not return the entries '
                                      'of their kind in dof order'))
    else:
        back = onp.asarray(dm.create_field(Uu, Ub))
        if not onp.array_equal(back, U):
            fails.append(Failure('roundtrip', 'create_field(get_unknown_values(U), get_bc_values(U)) != U'))
        # converse
        a = onp.arange(exp_unk.size, dtype=float) * 0.5 - 7.0
        b = onp.arange(exp_bc.size, dtype=float) * 3.0 + 101.0
        F = dm.create_field(np.array(a), np.array(b))
        if not (onp.array_equal(onp.asarray(dm.get_unknown_values(F)), a) and
                onp.array_equal(onp.asarray(dm.get_bc_values(F)), b)):
            fails.append(Failure('roundtrip', 'split(create_field(Uu, Ubc)) != (Uu, Ubc)'))
        # default boundary value is zero
        F0 = onp.asarray(dm.create_field(np.array(a)))
        if not (onp.array_equal(F0[isBc], onp.zeros(exp_bc.size)) and onp.array_equal(F0[~isBc], a)):
            fails.append(Failure('roundtrip', 'create_field(Uu) default boundary values'))
    # slicing by component
    for c in range(dim):
        got = onp.asarray(dm.slice_unknowns_with_dof_indices(Uu, (slice(None), c)))
        exp = U[~isBc[:, c], c]
        if not onp.array_equal(got, exp):
            fails.append(Failure('slice', 'component %d slice differs' % c))
            break

    # sparse-assembly maps
    npe = conns.shape[1]
    ndpe = npe * dim
    mask = onp.asarray(dm.hessian_bc_mask)
    rows = onp.asarray(dm.HessRowCoords)
    cols = onp.asarray(dm.HessColCoords)
    d2u = -onp.ones(ndof, dtype=int)
    d2u[exp_unk] = onp.arange(exp_unk.size)
    if mask.shape != (conns.shape[0], ndpe, ndpe):
        fails.append(Failure('mask', 'mask shape'))
    else:
        pos = 0
        mixed = False
        for e, en in enumerate(conns):
            gd = (en[:, None] * dim + onp.arange(dim)[None, :]).ravel()
            un = ~isBc.ravel()[gd]
            if un.any() and not un.all():
                mixed = True
            expmask = onp.outer(un, un)
            if not onp.array_equal(mask[e], expmask):
                fails.append(Failure('mask', 'element %d mask is not unknown x unknown' % e))
                break
            k = int(un.sum())
            seg_r = rows[pos:pos + k * k]
            seg_c = cols[pos:pos + k * k]
            if seg_r.size != k * k:
                fails.append(Failure('coords', 'row/col arrays too short at element %d' % e))
                break
            ue = d2u[gd[un]]
            expected = sorted(itertools.product(ue.tolist(), ue.tolist()))
            if sorted(zip(seg_r.tolist(), seg_c.tolist())) != expected:
                fails.append(Failure('coords', 'element %d row/col pairs are not U_e x U_e once each' % e))
                break
            pos += k * k
        else:
            if pos != rows.size or rows.size != cols.size:
                fails.append(Failure('coords', 'row/col arrays have %d entries, expected %d' % (rows.size, pos)))
    if not fails:
        # assembly against brute force, integer-valued symmetric blocks => exact
        ks = case['kseed']
        ne = conns.shape[0]
        idx = onp.arange(ne * ndpe * ndpe).reshape(ne, ndpe, ndpe)
        kv = ((idx * ks[0] + (idx // 7) * ks[1] + ks[2]) % 11 - 5 + ks[3]).astype(float)
        kv = kv + onp.transpose(kv, (0, 2, 1))
        K = SparseMatrixAssembler.assemble_sparse_stiffness_matrix(
            np.array(kv.reshape(ne, npe, dim, npe, dim)), mesh.conns, dm).toarray()
        D = onp.zeros((exp_unk.size, exp_unk.size))
        for e, en in enumerate(conns):
            gd = (en[:, None] * dim + onp.arange(dim)[None, :]).ravel()
            for a in range(ndpe):
                ia = d2u[gd[a]]
                if ia < 0:
                    continue
                for b in range(ndpe):
                    ib = d2u[gd[b]]
                    if ib >= 0:
                        D[ia, ib] += kv[e, a, b]
        if K.shape != D.shape or not onp.array_equal(K, D):
            fails.append(Failure('assembly', 'assembled matrix differs from dense brute-force scatter'))
    else:
        mixed = True
    nbc = int(isBc.sum())
    classes = ['order%d' % case['order'], 'dim%d' % dim, case['mesh']['kind'],
               'bc-empty' if nbc == 0 else ('bc-full' if nbc == ndof else 'bc-mixed')]
    if any(len(v) != len(set(v)) for v in case['nodeSets'].values()):
        classes.append('repeated-entries')
    if len(set(map(tuple, case['ebcs']))) != len(case['ebcs']):
        classes.append('repeated-ebc')
    return Result(fails, classes=classes, nontrivial=bool(mixed and 0 < nbc < ndof))


EXH = _exhaustive_cases()

SUBCHECKS = [
    Sub('random_bc', cases, check, quick=150, thorough=4000, shards_quick=8, shards_thorough=16,
        required=('bc-mixed', 'bc-empty', 'order2', 'order3', 'dim1', 'dim3', 'repeated-entries'),
        budget_quick=170),
    Sub('exhaustive_small', lambda: st.sampled_from(EXH), check, quick=1, thorough=1,
        shards_quick=1, shards_thorough=1, explicit=EXH, budget_quick=170),
]
