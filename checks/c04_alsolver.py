"""C04 - augmented-Lagrangian solve returns a KKT point with non-negative multipliers."""
import itertools
import math

import numpy as onp
from hypothesis import strategies as st

from vlib.core import Sub, Result, Failure, capture_stdout
from vlib import gen
from vlib import objectives as obj

PROPERTY = 'C04'
EPS = gen.EPS
RULE = ('general: strictly convex QP (+quartic) or non-convex objective with m <= 4 inequality constraints c(x) >= 0 that are linear or concave '
        '(balls), constructed to contain active, inactive, weakly active (plane through the unconstrained minimiser), redundant (scaled '
        'duplicates) members and an infeasible start; initial multipliers zero or random >= 0; settings: first/second order multiplier update, '
        'number of initial low-order iterations, penalty growth, decrease factor, tolerances. bounds: BoundConstrainedObjective + '
        'bound_constrained_solve with and without a PrecondStrategy and constraintStiffnessScaling. On normal return the KKT conditions are '
        'recomputed from the raw functions; convex linear problems are compared with an active-set enumeration (all 2^m sets); the callback '
        'history is checked for lam >= 0 and non-decreasing penalties. Non-trivial: an active constraint with positive multiplier, a penalty '
        'increase, or the second-order branch taken.')
ASSUMPTIONS = ['sub-solver tolerance <= 0.5 * AL tolerance and reset_kappa() before each solve, as every caller does',
               'NameError("Loadstep failed to converge") is a non-return: counted as inconclusive',
               'bounds (ii),(iv) follow from |Fischer-Burmeister| < tol via |min(a,b)| <= 1.71 |FB(a,b)|']

COMBOS = [(2, 1), (2, 2), (3, 2), (3, 4), (5, 3)]
_O = {}


def csizes(n, m):
    return [m, m * n, m, m, m, m * n]       # alpha, a, beta, gamma, rho, z


def make_c(n, m):
    import jax.numpy as np

    def c(x, p):
        v = p[1]
        o = 0
        parts = []
        for k in csizes(n, m):
            parts.append(v[o:o + k])
            o += k
        alpha, a, beta, gamma, rho, z = parts
        a = a.reshape(m, n)
        z = z.reshape(m, n)
        lin = a @ x - beta
        ball = rho ** 2 - np.sum((x[None, :] - z) ** 2, axis=1)
        return alpha * lin + gamma * ball
    return c


def get_objective(n, m, kexp):
    key = (n, m, kexp)
    if key not in _O:
        import jax.numpy as np
        from optimism import Objective, ConstrainedObjective
        f = obj.make_f(n)
        p0 = Objective.Params(np.zeros(n), np.concatenate([np.ones(m), np.ones(m * n), np.zeros(m), np.zeros(m), np.ones(m), np.zeros(m * n)]),
                              np.concatenate([np.eye(n).ravel(), np.zeros(sum(obj.sizes(n)) - n * n)]))
        with capture_stdout():
            o = ConstrainedObjective.ConstrainedObjective(f, make_c(n, m), np.zeros(n), p0, np.zeros(m), (10.0 ** kexp) * np.ones(m))
        _O[key] = o
    return _O[key]


@st.composite
def cases(draw):
    n, m = COMBOS[draw(st.integers(0, len(COMBOS) - 1))]
    fam = ['spdquad', 'spdquad', 'quartic', 'cos'][draw(st.integers(0, 3))]
    coef = draw(obj.coefficients(n, family=fam, cond_exp=(0.0, 2.0)))
    ckind = ['linear', 'linear', 'ball'][draw(st.integers(0, 2))]
    # unconstrained minimiser of the quadratic part as a landmark for constructing active / inactive / weakly active constraints
    cons = []
    for i in range(m):
        role = ['active', 'inactive', 'weak', 'redundant', 'active'][draw(st.integers(0, 4))]
        d = onp.array(draw(st.lists(gen.floats(-1, 1), min_size=n, max_size=n)))
        if onp.linalg.norm(d) < 1e-2:
            d = d + 1.0
        d = d / onp.linalg.norm(d)
        off = draw(gen.floats(0.1, 1.0))
        cons.append({'role': role, 'dir': d.tolist(), 'off': off, 'mult': draw(gen.logfloat(-1, 1))})
    x0 = onp.array(draw(st.lists(gen.floats(-2, 2), min_size=n, max_size=n)))
    lam0 = [draw(gen.floats(0.0, 2.0)) if draw(st.booleans()) else 0.0 for _ in range(m)]
    s = {'second': draw(st.booleans()), 'nlow': draw(st.integers(0, 4)), 'pen': draw(gen.floats(1.0, 10.0)), 'dec': draw(gen.floats(0.3, 0.9)),
         'tol_exp': draw(st.integers(-10, -6)), 'kexp': draw(st.integers(-1, 1)), 'warm': draw(st.booleans()),
         # iteration cap of the trust-region sub-solver: a small cap makes sub-solves return without success, which is an
         # admissible setting and the path on which the multiplier/penalty updates are guarded by the sub-solver's flag
         'sub_iters': [200, 200, 2, 1, 3, 6][draw(st.integers(0, 5))]}
    return {'n': n, 'm': m, 'coef': coef, 'ckind': ckind, 'cons': cons, 'x0': x0.tolist(), 'lam0': lam0, 'settings': s}


def build_constraints(case):
    """Concrete constraint coefficient vector; constraints are placed relative to the unconstrained minimiser xu of the QP part."""
    n, m = case['n'], case['m']
    A = onp.array(case['coef']['design'][:n * n]).reshape(n, n)
    b = onp.array(case['coef']['b'])
    try:
        xu = onp.linalg.solve(A, b)
    except onp.linalg.LinAlgError:
        xu = onp.zeros(n)
    if not onp.all(onp.isfinite(xu)) or onp.abs(xu).max() > 1e3:
        xu = onp.zeros(n)
    alpha, a, beta, gamma, rho, z = onp.zeros(m), onp.zeros((m, n)), onp.zeros(m), onp.zeros(m), onp.ones(m), onp.zeros((m, n))
    prev = None
    for i, cdef in enumerate(case['cons']):
        d = onp.array(cdef['dir'])
        role = cdef['role']
        if role == 'redundant' and prev is not None:
            alpha[i], a[i], beta[i], gamma[i], rho[i], z[i] = alpha[prev], a[prev] * cdef['mult'], beta[prev] * cdef['mult'], gamma[prev], rho[prev], z[prev]
            if gamma[prev]:
                rho[i] = rho[prev] * (1 + cdef['off'])          # a larger concentric ball: implied by the previous one
            continue
        if case['ckind'] == 'linear' or role == 'weak' and False:
            alpha[i] = 1.0
            a[i] = d * cdef['mult']
            # c = a.x - beta >= 0 ; at xu: a.xu - beta = margin
            margin = {'active': -cdef['off'], 'inactive': cdef['off'] + 1.0, 'weak': 0.0}.get(role, -cdef['off'])
            beta[i] = a[i] @ xu - margin * cdef['mult']
        else:
            gamma[i] = 1.0
            R = 1.0 + cdef['off']
            dist = {'active': R + cdef['off'], 'inactive': 0.3 * R, 'weak': R}.get(role, R + cdef['off'])
            z[i] = xu + dist * d
            rho[i] = R
        prev = i
    return onp.concatenate([alpha, a.ravel(), beta, gamma, rho, z.ravel()]), xu


def slater_margin(cvec, n, m, starts):
    """max_x min_i c_i(x) (numpy, SLSQP on the epigraph form): > 0 iff the constraint set has an interior point.  The property
    quantifies over constraint sets with infeasible STARTS, not over empty feasible sets: without a feasible point no KKT
    point exists, the multipliers grow without bound and the solver's error measure eventually cancels in floating point."""
    from scipy.optimize import minimize
    o = 0
    parts = []
    for k in csizes(n, m):
        parts.append(onp.asarray(cvec[o:o + k], dtype=float))
        o += k
    alpha, a, beta, gamma, rho, z = parts
    a = a.reshape(m, n)
    z = z.reshape(m, n)
    scale = onp.where(alpha > 0, onp.linalg.norm(a, axis=1) + 1e-300, 2 * rho + 1e-300)

    def cs(x):
        return (alpha * (a @ x - beta) + gamma * (rho ** 2 - onp.sum((x[None, :] - z) ** 2, axis=1))) / scale
    best = -onp.inf
    for x0 in starts:
        x0 = onp.asarray(x0, dtype=float)
        y0 = onp.concatenate([x0, [cs(x0).min()]])
        r = minimize(lambda y: -y[-1], y0, method='SLSQP', constraints=[{'type': 'ineq', 'fun': lambda y: cs(y[:-1]) - y[-1]},
                                                                      {'type': 'ineq', 'fun': lambda y: 10.0 - y[-1]}],
                     options={'maxiter': 200, 'ftol': 1e-12})
        y = r.x
        if onp.all(onp.isfinite(y)):
            best = max(best, float(min(cs(y[:-1]).min(), y[-1])))
    return best


def active_set_reference(A, b, Cm, beta):
    """Strictly convex QP with linear constraints C x - beta >= 0: enumerate all active sets."""
    n, m = A.shape[0], Cm.shape[0]
    best = None
    for k in range(m + 1):
        for S in itertools.combinations(range(m), k):
            S = list(S)
            if S:
                Cs = Cm[S]
                if onp.linalg.matrix_rank(Cs) < len(S):
                    continue
                KKT = onp.block([[A, -Cs.T], [Cs, onp.zeros((len(S), len(S)))]])
                rhs = onp.concatenate([b, beta[S]])
                try:
                    sol = onp.linalg.solve(KKT, rhs)
                except onp.linalg.LinAlgError:
                    continue
                x, lam = sol[:n], sol[n:]
            else:
                x, lam = onp.linalg.solve(A, b), onp.zeros(0)
            c = Cm @ x - beta
            sc = 1 + onp.abs(beta).max() if m else 1.0
            if (c >= -1e-9 * sc).all() and (lam >= -1e-9).all():
                return x
    return best


def check(case):
    import jax
    import jax.numpy as np
    from optimism import Objective, AlSolver, EquationSolver as ES
    n, m = case['n'], case['m']
    s = case['settings']
    fv, fabs, fg, fh = obj.raw_functions(n)
    cvec, xu = build_constraints(case)
    cfun = make_c(n, m)
    coef = case['coef']
    zs = [onp.asarray(cvec)[-m * n:].reshape(m, n)[i] for i in range(m)]
    if slater_margin(cvec, n, m, [xu, onp.array(case['x0']) + xu] + zs) <= 1e-6:
        return Result(inconclusive='empty-or-thin-feasible-set', classes=('no-interior',))
    p = Objective.Params(np.array(coef['b']), np.array(cvec), np.array(coef['design']))
    o = get_objective(n, m, s['kexp'])
    kappa0 = onp.asarray(o.constraintKappa)
    o.reset_kappa()
    o.lam = np.array(case['lam0'])
    # the objective always arrives holding the parameters of a previous load step
    o.p = Objective.Params(np.array(coef['b']) * 0.9 + 0.05 * coef['scale'], np.array(cvec), np.array(coef['design']))
    tol = 10.0 ** s['tol_exp'] * max(coef['scale'], 1.0)
    al = AlSolver.get_settings(penalty_scaling=s['pen'], target_constraint_decrease_factor=s['dec'], use_second_order_update=s['second'],
                               num_initial_low_order_iterations=s['nlow'], tol=tol, max_al_iters=60)
    sub = ES.get_settings(tol=0.5 * tol, max_trust_iters=s.get('sub_iters', 200))
    hist = []
    cb = lambda x, pp: hist.append((onp.array(o.lam), onp.array(o.kappa)))
    x0 = np.array(case['x0']) + np.array(xu)
    try:
        with capture_stdout() as buf:
            xr = AlSolver.augmented_lagrange_solve(o, x0, p, al, sub, callback=cb, useWarmStart=s['warm'])
    except NameError:
        return Result(inconclusive='loadstep-failed', classes=('non-return',))
    log = buf.getvalue()
    xr = onp.asarray(xr)
    lam = onp.asarray(o.lam)
    kap = onp.asarray(o.kappa)
    fails = []
    data = dict(second=s['second'], ckind=case['ckind'], family=coef['family'])
    if not (onp.all(onp.isfinite(xr)) and onp.all(onp.isfinite(lam))):
        return Result(Failure('finite', 'returned point / multipliers not finite', **data), nontrivial=True)
    c = onp.asarray(cfun(np.array(xr), p))
    Jc = onp.asarray(jax.jacfwd(lambda z: cfun(z, p))(np.array(xr)))
    g = onp.asarray(fg(np.array(xr), p))
    gn = onp.linalg.norm(Jc, axis=1)
    ratio = float((kap / kappa0).max())
    stat = onp.linalg.norm(g - Jc.T @ lam)
    if stat > tol * (1 + 2 * 1.71 * ratio * gn.sum()) * 1.01:
        fails.append(Failure('stationarity', '|grad f - Jc^T lam| = %.3e exceeds %.3e (tol %.1e)' % (stat, tol * (1 + 2 * 1.71 * ratio * gn.sum()), tol), **data))
    if (c < -2 * tol / kappa0).any():
        fails.append(Failure('feasibility', 'constraint value %.3e < -2 tol / kappa0 = %.3e' % (c.min(), -2 * tol / kappa0.min()), **data))
    if (lam < 0).any():
        fails.append(Failure('multiplier-sign', 'negative multiplier %r' % float(lam.min()), **data))
    comp = onp.abs(lam * c)
    if (comp > 2 * tol * onp.maximum(onp.abs(c), lam / kappa0) * 1.01 + 1e-300).any():
        i = int(onp.argmax(comp - 2 * tol * onp.maximum(onp.abs(c), lam / kappa0)))
        fails.append(Failure('complementarity', 'lam*c = %.3e for constraint %d (lam %.3e, c %.3e, tol %.1e)' % (comp[i], i, lam[i], c[i], tol), **data))
    if not (onp.array_equal(onp.asarray(o.p[0]), onp.asarray(p[0])) and onp.array_equal(onp.asarray(o.p[1]), onp.asarray(p[1]))):
        fails.append(Failure('parameters', 'objective does not carry the requested parameters after the solve', **data))
    for k, (l_, k_) in enumerate(hist):
        if (l_ < 0).any():
            fails.append(Failure('history-multipliers', 'negative multiplier at outer iteration %d' % k, **data))
            break
        if k > 0 and (k_ < hist[k - 1][1]).any():
            fails.append(Failure('history-penalty', 'a penalty parameter decreased at outer iteration %d' % k, **data))
            break
    classes = [coef['family'], case['ckind'], 'second' if s['second'] else 'first', 'warm' if s['warm'] else 'cold']
    if coef['family'] == 'spdquad' and case['ckind'] == 'linear' and not fails:
        A = onp.array(coef['design'][:n * n]).reshape(n, n)
        al_, a_, be_ = cvec[:m], cvec[m:m + m * n].reshape(m, n), cvec[m + m * n:2 * m + m * n]
        xs = active_set_reference(A, onp.array(coef['b']), a_ * al_[:, None], be_ * al_)
        if xs is not None:
            lmin = onp.linalg.eigvalsh(A)[0]
            bound = 1e3 * tol * max(1.0, 1.0 / kappa0.min()) * (1 + gn.sum()) / lmin + 1e-9 * (1 + onp.linalg.norm(xs))
            classes.append('reference')
            if onp.linalg.norm(xr - xs) > bound:
                fails.append(Failure('convex-minimiser', 'returned point is %.3e from the constrained minimiser (bound %.1e)' % (onp.linalg.norm(xr - xs), bound), **data))
    active = bool(((lam > 1e-6 * (1 + onp.linalg.norm(g))) & (onp.abs(c) < 1e-4)).any())
    pen_up = bool((kap > kappa0).any())
    second_taken = bool(s['second'] and len(hist) - 1 > s['nlow'])
    if active:
        classes.append('active')
    if pen_up:
        classes.append('penalty-increase')
    if second_taken:
        classes.append('second-order-taken')
    if 'Reached the maximum number of trust region iterations' in log:
        classes.append('sub-solver-capped')
    if any(cd['role'] == 'redundant' for cd in case['cons']):
        classes.append('redundant')
    if any(cd['role'] == 'weak' for cd in case['cons']):
        classes.append('weakly-active')
    return Result(fails, classes=classes, nontrivial=bool(active or pen_up or second_taken))


# ---------------------------------------------------------------------------------------------------
# bound-constrained front end
# ---------------------------------------------------------------------------------------------------

@st.composite
def bound_cases(draw):
    n = [3, 4][draw(st.integers(0, 1))]
    fam = ['spdquad', 'quartic'][draw(st.integers(0, 1))]
    coef = draw(obj.coefficients(n, family=fam, cond_exp=(0.0, 2.0)))
    nc = draw(st.integers(1, n))
    idx = sorted(draw(st.lists(st.integers(0, n - 1), min_size=nc, max_size=nc, unique=True)))
    x0 = [abs(v) + 0.1 for v in draw(st.lists(gen.floats(-1, 1), min_size=n, max_size=n))]
    return {'n': n, 'coef': coef, 'idx': idx, 'x0': x0, 'css': [1.0, 0.05, 4.0][draw(st.integers(0, 2))], 'ps': draw(st.booleans()),
            'tol_exp': draw(st.integers(-9, -7)), 'warm': draw(st.booleans())}


def check_bounds(case):
    import jax
    import jax.numpy as np
    from scipy.sparse import csc_matrix
    from optimism import Objective, AlSolver, EquationSolver as ES, BoundConstrainedObjective as BCO, BoundConstrainedSolver as BCS
    n = case['n']
    fv, fabs, fg, fh = obj.raw_functions(n)
    coef = case['coef']
    f = obj.make_f(n)
    p = obj.params(np, coef, Objective)
    idx = np.array(case['idx'])
    x0 = np.array(case['x0'])
    ps = Objective.PrecondStrategy(lambda x, pp: csc_matrix(onp.asarray(fh(x, pp)))) if case['ps'] else None
    tol = 10.0 ** case['tol_exp'] * max(coef['scale'], 1.0)
    al = AlSolver.get_settings(tol=tol, max_al_iters=60)
    sub = ES.get_settings(tol=0.5 * tol, max_trust_iters=200)
    try:
        with capture_stdout():
            bo = BCO.BoundConstrainedObjective(f, x0, p, idx, constraintStiffnessScaling=case['css'], precondStrategy=ps)
            xr = BCS.bound_constrained_solve(bo, x0, p, al, sub, useWarmStart=case['warm'])
    except NameError:
        return Result(inconclusive='loadstep-failed', classes=('non-return',))
    xr = onp.asarray(xr)
    lam = onp.asarray(bo.get_multipliers())
    sc = onp.asarray(bo.scaling)
    g = onp.asarray(fg(np.array(xr), p))
    ii = onp.array(case['idx'])
    free = onp.setdiff1d(onp.arange(n), ii)
    fails = []
    data = dict(ps=case['ps'], css=case['css'])
    # the termination test is on the scaled problem: allow tol times the scaling of each unknown
    tl = tol * sc * 1.01
    if free.size and (onp.abs(g[free]) > tl[free] * 2).any():
        fails.append(Failure('stationarity', 'free unknown: |df/dx| = %.3e (tol*scaling %.1e)' % (onp.abs(g[free]).max(), tl[free].max()), **data))
    res = onp.abs(g[ii] - lam)
    if (res > tl[ii] * (2 + 4 * 1.71)).any():
        k = int(onp.argmax(res - tl[ii] * (2 + 4 * 1.71)))
        fails.append(Failure('stationarity', 'bounded unknown %d: df/dx = %.6g but the reported multiplier is %.6g (tol*scaling %.1e)'
                             % (ii[k], g[ii][k], lam[k], tl[ii][k]), **data))
    if (xr[ii] < -2 * tol / 0.25 / sc[ii] * 1.01).any():
        fails.append(Failure('feasibility', 'bound x >= 0 violated: %.3e' % xr[ii].min(), **data))
    if (lam < 0).any():
        fails.append(Failure('multiplier-sign', 'negative multiplier %r' % float(lam.min()), **data))
    comp = onp.abs(lam * xr[ii])
    if (comp > 2 * tol * onp.maximum(onp.abs(xr[ii]) * sc[ii], lam / sc[ii] / 0.25) * 1.01 * onp.maximum(1.0, 1.0)).any():
        fails.append(Failure('complementarity', 'lam*x = %.3e on a bounded unknown (tol %.1e)' % (comp.max(), tol), **data))
    active = bool((lam > 1e-6 * (1 + onp.abs(g).max())).any())
    return Result(fails, classes=['ps' if case['ps'] else 'nops', 'css%g' % case['css'], coef['family']] + (['active'] if active else []), nontrivial=active)


SUBCHECKS = [
    Sub('general', cases, check, quick=100, thorough=2500, shards_quick=12, shards_thorough=12,
        required=('linear', 'ball', 'second', 'first', 'active', 'penalty-increase', 'second-order-taken', 'reference', 'redundant', 'weakly-active', 'sub-solver-capped'),
        budget_quick=170, timeout=300),
    Sub('bounds', bound_cases, check_bounds, quick=30, thorough=200, shards_quick=4, shards_thorough=4, required=('ps', 'nops', 'active'),
        budget_quick=170, timeout=300),
]
