"""C10 - stress and tangent from autodiff match the energy's true derivatives (numerical differentiation)."""
import math

import numpy as onp
from hypothesis import strategies as st

from vlib.core import Sub, Result, Failure
from vlib import gen
from vlib import materials as mats
from checks import c09_j2update as c09

PROPERTY = 'C10'
EPS = gen.EPS
RULE = ('For every model/option Hypothesis draws admissible constants, a short history (0-2 committed steps through the library update, so '
        'plastic / viscous states exist), an evaluation deformation that is elastic, actively yielding or relaxing, and a perturbation '
        'direction (random or basis). jax.grad(W):dH is compared with a 6th-order central difference of W, jvp(grad W)[dH] with the same '
        'difference of the AD gradient, and dH:C:dH with the 6th-order second difference of W; each difference is computed with two step '
        'sizes that must agree (otherwise the case is inconclusive), and stencils that straddle the J2 yield switch are discarded. '
        'Non-trivial: inelastic model at a yielding / relaxing state, or a finite-strain elastic state with strain > 1e-4.')
ASSUMPTIONS = ['finite differences of the library energy itself are the reference (6th order, two step sizes)',
               'tolerance 1e-6 relative to (|P| + modulus*|dH|)|dH| for first derivatives, 1e-5 for second derivatives',
               'stencils straddling the yield switch are not evaluated (the property excludes them)']

_C = {}
C1 = onp.array([-1, 9, -45, 0, 45, -9, 1]) / 60.0
C2 = onp.array([2, -27, 270, -490, 270, -27, 2]) / 180.0


def compiled(name):
    if name not in _C:
        import jax
        cfg = mats.CONFIGS[name]
        W = mats.energy_fn(cfg)
        G = jax.grad(W)

        def point(H, state, dt, pv, dH):
            P, CdH = jax.jvp(lambda X: G(X, state, dt, pv), (H,), (dH,))
            return W(H, state, dt, pv), P, CdH
        _C[name] = dict(point=jax.jit(point), rawpoint=point,
                        Wb=jax.jit(jax.vmap(W, (0, None, None, None))), Gb=jax.jit(jax.vmap(G, (0, None, None, None))),
                        S=jax.jit(mats.state_new_fn(cfg)))
    return _C[name]


def KNOWN_D1(sub, case, failure):
    return bool(failure.data.get('fusion_only') is True)


def KNOWN_D18(sub, case, failure):
    """D18: second derivatives of the symmetric tensor functions (sqrt/exp/log/pow_symm) are wrong when their argument has
    (nearly) repeated eigenvalues - the JVP rule is itself differentiated through the eigenvectors, error ~ulp/gap (pow: worse).
    Affects the tangent (never the stress) of every model built on them, also op-by-op."""
    d = failure.data
    return bool(failure.clause in ('tangent', 'tangent-action') and d.get('fusion_only') is False and
                d.get('uses_tensor_functions') and d.get('relgap') is not None and d['relgap'] < 1e-4 and
                (d.get('spread', 0.0) > 1e-6 or 'seth' in str(d.get('model'))))
    # for the logarithmic models a spherical tensor needs first derivatives only (the volumetric strain bypasses log_symm), so
    # the unchanged tree is right there; the seth hill measure takes its volumetric part from pow_symm as well


KNOWN_MATCH = {'D1': KNOWN_D1, 'D18': KNOWN_D18, 'D16': c09.KNOWN_D16}      # D16: same NaN of the rate-sensitive update as in C09


def tensor_function_gap(cfg, He, state):
    """Smallest relative eigenvalue gap among the tensors the model feeds to log/pow/sqrt_symm at (He, state); None if none."""
    F = He + onp.eye(3)
    ts = []
    if cfg.family == 'j2' and cfg.options['kinematics'] == 'large deformations':
        Fe = F @ onp.linalg.inv(onp.asarray(state[1:10]).reshape(3, 3))
        ts.append(Fe.T @ Fe)
    elif cfg.family == 'j2' and cfg.options['kinematics'] == 'seth hill':
        ts.append(F.T @ F)
    elif cfg.family in ('visco1', 'visco3'):
        for i in range(1 if cfg.family == 'visco1' else 3):
            Fe = F @ onp.linalg.inv(onp.asarray(state[9 * i:9 * i + 9]).reshape(3, 3))
            ts.append(Fe.T @ Fe)
    elif cfg.name in ('linear-elastic/logarithmic', 'pf-threshold/large'):
        ts.append(F.T @ F)
    if not ts:
        return None
    g = []
    for C_ in ts:
        w = onp.linalg.eigvalsh(0.5 * (C_ + C_.T))
        g.append((min(w[1] - w[0], w[2] - w[1]) / w[2], (w[2] - w[0]) / w[2]))
    k = int(onp.argmin([a for a, _ in g]))
    return float(g[k][0]), float(g[k][1])


def make_cases(names):
    @st.composite
    def cases(draw):
        name = names[draw(st.integers(0, len(names) - 1))]
        cfg = mats.CONFIGS[name]
        pr = draw(mats.properties(cfg))
        nhist = draw(st.integers(0, 2))
        hist = [{'dir': draw(st.lists(gen.floats(-1, 1), min_size=4, max_size=4)), 'mag': draw(gen.floats(0.5, 5.0)), 'dtrel': draw(gen.logfloat(-3, 3))}
                for _ in range(nhist)]
        ev = {'dir': draw(st.lists(gen.floats(-1, 1), min_size=4, max_size=4)), 'mag': draw(gen.floats(0.2, 5.0)),
              'mode': ['continue', 'back', 'random', 'spherical'][draw(st.integers(0, 3))], 'dtrel': draw(gen.logfloat(-3, 3)),
              'rot': draw(gen.angle()), 'strain_exp': draw(st.integers(-6, -1))}
        dk = draw(st.integers(0, 5))
        dH = draw(st.lists(gen.floats(-1, 1), min_size=9, max_size=9))
        return {'model': name, 'props': pr, 'hist': hist, 'eval': ev, 'dkind': dk, 'dH': dH}
    return cases


def _dir(d):
    D = onp.array([[d[0], d[2], 0], [d[3], d[1], 0], [0, 0, 0.0]])
    if onp.abs(D).max() < 1e-3:
        D = D + onp.diag([1.0, -0.4, 0.0])
    return D / onp.linalg.norm(D)


def check(case):
    import jax
    import jax.numpy as np
    cfg = mats.CONFIGS[case['model']]
    pr = case['props']
    pv = np.array(pr['pvec'])
    K = pr['stiff']
    C = compiled(case['model'])
    state = mats.library_initial_state(cfg, pr['pvec']).copy()
    # strain scale: yield strain for J2, drawn exponent otherwise
    if cfg.family == 'j2':
        e0 = pr['Y0'] / (2 * pr['mu'] * math.sqrt(1.5))
    else:
        e0 = 10.0 ** case['eval']['strain_exp']
    tau = min(pr['taus'])
    H = onp.zeros((3, 3))
    last = None
    for h in case['hist']:
        D = _dir(h['dir'])
        Hn = H + min(h['mag'] * e0, 0.15) * D
        if onp.abs(Hn).max() > 0.4:
            break
        H = Hn
        last = D
        state = onp.asarray(C['S'](np.array(H), np.array(state), h['dtrel'] * tau, pv))
        if not onp.all(onp.isfinite(state)):
            return Result(inconclusive='history-nonfinite')
    ev = case['eval']
    D = _dir(ev['dir'])
    if ev['mode'] == 'continue' and last is not None:
        D = last
    elif ev['mode'] == 'back' and last is not None:
        D = -last
    He = H + min(ev['mag'] * e0, 0.15) * D
    if ev['mode'] == 'spherical':
        # undeformed / pure dilation (optionally rotated below): the tensor functions see a multiple of the identity
        a = 0.0 if ev['mag'] < 1.0 else min((ev['mag'] - 1.0) * e0, 0.1) * (1 if ev['dir'][0] >= 0 else -1)
        He = a * onp.eye(3)
        state = mats.library_initial_state(cfg, pr['pvec']).copy()
    if cfg.finite and cfg.family != 'j2':
        R = gen.rotz(ev['rot'])
        He = R @ (He + onp.eye(3)) - onp.eye(3)          # superposed rotation: non-symmetric displacement gradients
    if onp.abs(onp.linalg.svd(He + onp.eye(3), compute_uv=False) - 1).max() > 0.45:
        return Result(inconclusive='strain-too-large')
    dt = ev['dtrel'] * tau
    # perturbation direction
    if case['dkind'] <= 2:
        dH = onp.array(case['dH']).reshape(3, 3)
        if case['dkind'] == 0:
            dH[2, :] = 0
            dH[:, 2] = 0
    else:
        dH = onp.zeros((3, 3))
        idx = [(0, 0), (0, 1), (1, 0), (1, 1)][int(abs(case['dH'][0]) * 3.999)]
        dH[idx] = 1.0
    if onp.linalg.norm(dH) < 1e-3:
        dH = dH + onp.eye(3)
    dH = dH / onp.linalg.norm(dH)
    # the smallest stencil step must keep the rounding noise of the second difference of W (about 64 eps K / h^2: finite
    # deformation energies subtract O(1) terms such as tr(C) - 3) below a tenth of the tangent tolerance 1e-5 K
    scaleH = max(onp.linalg.norm(He), 3e-2 if cfg.family != 'j2' else 0.2 * e0)
    hs = [1e-2 * scaleH, 0.5e-2 * scaleH]
    # yield-switch straddling (J2): all stencil points must be on the same side as the centre
    if cfg.family == 'j2':
        hard = c09.Hard(cfg, pr['pvec'])
        Yc = hard.flow(float(state[0]))

        def excess(Hx):
            ee = c09.elastic_strain(cfg, Hx, state)
            return math.sqrt(1.5) * 2 * pr['mu'] * onp.linalg.norm(c09.dev(ee)) - Yc
        ex = [excess(He + k * hs[0] * dH) for k in range(-3, 4)]
        margin = 1e-6 * pr['Y0']
        if not (all(e > margin for e in ex) or all(e < -margin for e in ex)):
            return Result(inconclusive='straddles-yield', classes=('straddle',))
        yielding = ex[3] > 0
    else:
        yielding = False
    W0, P, CdH = [onp.asarray(o) for o in C['point'](np.array(He), np.array(state), dt, pv, np.array(dH))]
    if not (onp.isfinite(W0) and onp.all(onp.isfinite(P)) and onp.all(onp.isfinite(CdH))):
        f = Failure('finite', '%s: energy / stress / tangent not finite' % case['model'], model=case['model'], H=He.tolist(), dH=dH.tolist(),
                    state=onp.asarray(state).tolist(), dt=float(dt), nonfinite=[bool(onp.isfinite(W0)), bool(onp.all(onp.isfinite(P))), bool(onp.all(onp.isfinite(CdH)))])
        with jax.disable_jit():
            oe = C['rawpoint'](np.array(He), np.array(state), dt, pv, np.array(dH))
        f.data['fusion_only'] = bool(all(onp.all(onp.isfinite(onp.asarray(o))) for o in oe))
        if cfg.family == 'j2':
            f.data.update(c09.d16_diagnostics(cfg, hard, pr['mu'], He, onp.asarray(state), dt))
        return Result(f, nontrivial=True)
    fd1, fd2, fdg = [], [], []
    for h in hs:
        pts = onp.array([He + k * h * dH for k in range(-3, 4)])
        Ws = onp.asarray(C['Wb'](np.array(pts), np.array(state), dt, pv))
        Gs = onp.asarray(C['Gb'](np.array(pts), np.array(state), dt, pv))
        if not (onp.all(onp.isfinite(Ws)) and onp.all(onp.isfinite(Gs))):
            return Result(inconclusive='stencil-nonfinite')
        fd1.append(float(C1 @ Ws) / h)
        fd2.append(float(C2 @ Ws) / (h * h))
        fdg.append(onp.tensordot(C1, Gs, axes=(0, 0)) / h)
    nP = onp.linalg.norm(P)
    tol1 = 1e-6 * (nP + K * scaleH)
    tol2 = 1e-5 * K
    fails = []
    incon = None
    what = '%s (%s%s)' % (case['model'], 'yielding' if yielding else ('relaxing' if cfg.family.startswith('visco') else 'elastic'),
                          ', %d committed steps' % len(case['hist']))
    ad1 = float(onp.sum(P * dH))
    ad2 = float(onp.sum(CdH * dH))
    data = dict(model=case['model'], H=He.tolist(), dH=dH.tolist(), state=state.tolist(), dt=dt)
    local = []
    if abs(fd1[0] - fd1[1]) > 0.1 * tol1:
        incon = 'fd-not-converged'
    elif abs(ad1 - fd1[1]) > tol1:
        local.append(Failure('stress', '%s: grad(W):dH = %.10g, central difference of W = %.10g (|P| = %.3g)' % (what, ad1, fd1[1], nP), **data))
    noise2 = 64 * EPS * (float(onp.abs(Ws).max()) + K) / (hs[1] * hs[1])
    if abs(fd2[0] - fd2[1]) > 0.1 * tol2:
        incon = incon or 'fd2-not-converged'
    elif noise2 > 0.1 * tol2:
        incon = incon or 'fd2-below-rounding-noise'      # tangent still decided by the difference of grad W below
    elif abs(ad2 - fd2[1]) > tol2:
        local.append(Failure('tangent', '%s: dH:C:dH = %.10g from jvp(grad), second difference of W = %.10g (stiffness %.3g)' % (what, ad2, fd2[1], K), **data))
    if onp.abs(fdg[0] - fdg[1]).max() > 0.1 * tol2:
        incon = incon or 'fdg-not-converged'
    elif onp.abs(CdH - fdg[1]).max() > tol2:
        local.append(Failure('tangent-action', '%s: jvp(grad W)[dH] differs from the central difference of grad W by %.3e (stiffness %.3g)'
                             % (what, onp.abs(CdH - fdg[1]).max(), K), **data))
    if local:
        with jax.disable_jit():
            oe = [onp.asarray(o) for o in C['rawpoint'](np.array(He), np.array(state), dt, pv, np.array(dH))]
        e1, e2, eC = float(onp.sum(oe[1] * dH)), float(onp.sum(oe[2] * dH)), oe[2]
        ok = {'stress': abs(e1 - fd1[1]) <= tol1, 'tangent': abs(e2 - fd2[1]) <= tol2, 'tangent-action': onp.abs(eC - fdg[1]).max() <= tol2}
        gap = tensor_function_gap(cfg, He, state)
        for f in local:
            f.data['fusion_only'] = bool(ok[f.clause])
            f.data['uses_tensor_functions'] = gap is not None
            f.data['relgap'] = None if gap is None else gap[0]
            f.data['spread'] = None if gap is None else gap[1]
        fails += local
    classes = [case['model'], 'yielding' if yielding else 'not-yielding', 'hist%d' % len(case['hist']), 'dkind%d' % min(case['dkind'], 3)] + (['spherical'] if ev['mode'] == 'spherical' else [])
    nt = bool(yielding or (cfg.family.startswith('visco') and len(case['hist']) > 0) or (cfg.finite and onp.linalg.norm(He) > 1e-4))
    return Result(fails, classes=classes, nontrivial=nt, inconclusive=incon, n_eval=3)


FAMILIES = {
    'elastic': ['linear-elastic/linear', 'linear-elastic/green lagrange', 'linear-elastic/logarithmic', 'neohookean/adagio',
                'neohookean/coupled', 'gent', 'pf-threshold/small', 'pf-threshold/large'],
    'visco': ['visco1', 'visco3'],
}
for kin in ('small', 'large', 'seth'):
    FAMILIES['j2-' + kin] = ['j2/%s/%s' % (kin, h) for h in ('linear', 'voce', 'power law')]
    FAMILIES['j2-' + kin + '-rate'] = ['j2/%s/%s/rate' % (kin, h) for h in ('linear', 'voce', 'power law')]

SUBCHECKS = [
    Sub(fam, make_cases(names), check, quick=150, thorough=5000, shards_quick=2 if fam in ('elastic', 'visco') else 1,
        shards_thorough=2, required=tuple(names) + (('yielding',) if fam.startswith('j2') else ()), budget_quick=170)
    for fam, names in FAMILIES.items()
]
