"""C13 - mesh construction, merging, reading and order elevation keep meshes valid."""
import json
import os
import shutil
import tempfile

import numpy as onp
from hypothesis import strategies as st

from vlib.core import Sub, Result, Failure
from vlib import gen

PROPERTY = 'C13'
RULE = ('structured: every (Nx, Ny) in 2..6 enumerated, larger sizes and extents sampled. edges/elevate: lattice meshes with drawn '
        'diagonals, jitter, grading, affine map, cyclically rotated vertex triples, permuted element and node numbering; Delaunay '
        'meshes with holes; target order 2..5 with and without bubble, copyNodeSets / createNodeSetsFromSideSets with generated sets. '
        'merge: pairs of degree-1 meshes with generated node/side/block sets whose names are disjoint or clash (including the default '
        'block_0 twice). read: files written by the checker (JSON layout of test/patch.json; Exodus-II NetCDF with TRI3/tri/TRI6, 1-3 '
        'blocks, named and unnamed sets, with and without elem_num_map). Oracle: validity predicate over the returned Mesh, brute-force '
        'edge table, affine node placement, containment of every set member, equality with what was written. Non-trivial: interior '
        'edge + rotated connectivity, name clash, >= 2 blocks or an unnamed set.')
ASSUMPTIONS = ['input meshes are valid simplex meshes (CCW, positive area, every node used)',
               'side sets handed to createNodeSetsFromSideSets are non-empty (the routine vmaps over the rows)',
               'Exodus files follow the layout of optimism/test/patch_2_blocks.exo (1-based ids, len_name char arrays)']


# ---------------------------------------------------------------------------------------------------
# validity predicate and brute-force edge table
# ---------------------------------------------------------------------------------------------------

def validity(mesh, what, require_blocks=True):
    coords = onp.asarray(mesh.coords)
    conns = onp.asarray(mesh.conns)
    nn, ne = coords.shape[0], conns.shape[0]
    if conns.size == 0 or conns.min() < 0 or conns.max() >= nn:
        return Failure('connectivity-range', '%s: connectivity entries outside [0, %d)' % (what, nn))
    if onp.unique(conns).size != nn:
        return Failure('unused-nodes', '%s: %d of %d nodes are not used by any element' % (what, nn - onp.unique(conns).size, nn))
    vn = onp.asarray(mesh.parentElement.vertexNodes)
    v = coords[conns[:, vn]]
    area = 0.5 * ((v[:, 1, 0] - v[:, 0, 0]) * (v[:, 2, 1] - v[:, 0, 1]) - (v[:, 1, 1] - v[:, 0, 1]) * (v[:, 2, 0] - v[:, 0, 0]))
    if not onp.all(area > 0):
        return Failure('orientation', '%s: element %d has non-positive area %r' % (what, int(onp.argmin(area)), float(area.min())))
    if mesh.nodeSets:
        for k, s in mesh.nodeSets.items():
            s = onp.asarray(s)
            if s.size and (s.min() < 0 or s.max() >= nn):
                return Failure('nodeset-range', '%s: node set %s refers to a node outside the mesh' % (what, k))
    if mesh.sideSets:
        for k, s in mesh.sideSets.items():
            s = onp.asarray(s)
            if s.size:
                if s.ndim != 2 or s.shape[1] != 2 or s[:, 0].min() < 0 or s[:, 0].max() >= ne or s[:, 1].min() < 0 or s[:, 1].max() > 2:
                    return Failure('sideset-range', '%s: side set %s refers to a non-existing element side' % (what, k))
    if mesh.blocks:
        for k, s in mesh.blocks.items():
            s = onp.asarray(s)
            if s.size and (s.min() < 0 or s.max() >= ne):
                return Failure('block-range', '%s: block %s refers to a non-existing element' % (what, k))
    elif require_blocks:
        return Failure('block-range', '%s: mesh has no blocks' % what)
    return None


def brute_edges(conns3):
    owners = {}
    for e, c in enumerate(conns3):
        for s in range(3):
            a, b = int(c[s]), int(c[(s + 1) % 3])
            owners.setdefault((min(a, b), max(a, b)), []).append((e, s, a, b))
    return owners


def check_edges_against_brute(conns3, edgeConns, edges, what):
    owners = brute_edges(conns3)
    edgeConns = onp.asarray(edgeConns)
    edges = onp.asarray(edges)
    if edgeConns.shape[0] != len(owners) or edges.shape[0] != len(owners):
        return Failure('edge-count', '%s: create_edges lists %d edges, the mesh has %d' % (what, edgeConns.shape[0], len(owners)))
    seen = set()
    for i in range(edgeConns.shape[0]):
        a, b = int(edgeConns[i, 0]), int(edgeConns[i, 1])
        key = (min(a, b), max(a, b))
        if key in seen:
            return Failure('edge-once', '%s: edge %r listed twice' % (what, key))
        seen.add(key)
        if key not in owners:
            return Failure('edge-exists', '%s: listed edge %r does not exist' % (what, key))
        own = owners[key]
        lt, lp, rt, rp = [int(x) for x in edges[i]]
        left = [o for o in own if o[0] == lt and o[1] == lp]
        if not left or (left[0][2], left[0][3]) != (a, b):
            return Failure('edge-left', '%s: edge %r: left element/side (%d,%d) does not own the edge in that direction' % (what, (a, b), lt, lp))
        others = [o for o in own if not (o[0] == lt and o[1] == lp)]
        if not others:
            if (rt, rp) != (-1, -1):
                return Failure('edge-right', '%s: boundary edge %r reports right element (%d,%d)' % (what, (a, b), rt, rp))
        else:
            if len(others) != 1 or (others[0][0], others[0][1]) != (rt, rp):
                return Failure('edge-right', '%s: interior edge %r shared by elements %r: reported right element/side (%d,%d), expected (%d,%d)'
                               % (what, (a, b), [o[0] for o in own], rt, rp, others[0][0], others[0][1]))
    return None


def has_interior_and_rotated(conns3):
    owners = brute_edges(conns3)
    interior = any(len(o) == 2 for o in owners.values())
    same_side = any(len(o) == 2 and o[0][1] == o[1][1] for o in owners.values())
    return interior, same_side


# ---------------------------------------------------------------------------------------------------
# structured generator + edges
# ---------------------------------------------------------------------------------------------------

def _structured_explicit():
    return [{'kind': 'structured', 'Nx': nx, 'Ny': ny, 'xExtent': [0.0, 1.0 + 0.1 * nx], 'yExtent': [-1.0, 2.0], 'order': 1 + (nx + ny) % 3,
             'bubble': False} for nx in range(2, 7) for ny in range(2, 7)]


@st.composite
def structured_cases(draw):
    m = draw(gen.structured_mesh(n=(2, 12)))
    m['order'] = draw(st.sampled_from([1, 1, 2, 3]))
    m['bubble'] = draw(st.booleans()) and m['order'] >= 2
    if m['order'] > 1 and m['Nx'] * m['Ny'] > 36:
        m['order'] = 1
    return m


def check_structured(case):
    from optimism import Mesh
    mesh = Mesh.construct_structured_mesh(case['Nx'], case['Ny'], case['xExtent'], case['yExtent'], case['order'], case['bubble'])
    what = 'structured %dx%d order %d' % (case['Nx'], case['Ny'], case['order'])
    fails = []
    f = validity(mesh, what)
    if f:
        fails.append(f)
    else:
        conns = onp.asarray(mesh.conns)
        vn = onp.asarray(mesh.parentElement.vertexNodes)
        ne = 2 * (case['Nx'] - 1) * (case['Ny'] - 1)
        if conns.shape[0] != ne:
            fails.append(Failure('element-count', '%s: %d elements, expected %d' % (what, conns.shape[0], ne)))
        c = onp.asarray(mesh.coords)
        ext = [c[:, 0].min(), c[:, 0].max(), c[:, 1].min(), c[:, 1].max()]
        exp = case['xExtent'] + case['yExtent']
        if onp.abs(onp.array(ext) - onp.array(exp)).max() > 1e-12 * (1 + onp.abs(exp).max()):
            fails.append(Failure('extent', '%s: coordinates span %r, expected %r' % (what, ext, exp)))
        ec, ed = Mesh.create_edges(onp.asarray(mesh.conns)[:, vn])
        f = check_edges_against_brute(conns[:, vn], ec, ed, what)
        if f:
            fails.append(f)
        if case['order'] > 1:
            f = check_elevation(gen.mesh_arrays(case), mesh, case['order'], case['bubble'], what)
            if f:
                fails.append(f)
    return Result(fails, classes=['order%d' % case['order']], nontrivial=bool(case['Nx'] > 2 or case['Ny'] > 2))


# ---------------------------------------------------------------------------------------------------
# elevation
# ---------------------------------------------------------------------------------------------------

def check_elevation(base, mesh, order, bubble, what):
    """base = (coords, conns) of the degree-1 mesh."""
    bc, bconn = base
    coords = onp.asarray(mesh.coords)
    conns = onp.asarray(mesh.conns)
    pe = mesh.parentElement
    ref = onp.asarray(pe.coordinates)
    vn = onp.asarray(pe.vertexNodes)
    if conns.shape[0] != bconn.shape[0] or conns.shape[1] != ref.shape[0]:
        return Failure('elevate-shape', '%s: connectivity shape %r' % (what, conns.shape))
    if not onp.array_equal(conns[:, vn], bconn):
        return Failure('vertex-numbering', '%s: vertex numbering of the simplex mesh not preserved' % what)
    if onp.abs(coords[:bc.shape[0]] - bc).max() > 1e-13 * (1 + onp.abs(bc).max()):
        return Failure('vertex-numbering', '%s: vertex coordinates changed' % what)
    # affine image of the reference nodes
    A = onp.column_stack([ref[vn], onp.ones(3)])        # 3x3: reference vertex coords (homogeneous)
    h = onp.sqrt(onp.abs(gen._tri_areas(bc, bconn)).max())
    for e in range(conns.shape[0]):
        X = coords[conns[e, vn]]                         # physical vertex coords
        Mx = onp.linalg.solve(A, X)                      # maps [xi, eta, 1] -> x
        img = onp.column_stack([ref, onp.ones(ref.shape[0])]) @ Mx
        err = onp.abs(coords[conns[e]] - img).max()
        if err > 1e-12 * (h + onp.abs(X).max()):
            k = int(onp.argmax(onp.abs(coords[conns[e]] - img).max(axis=1)))
            return Failure('affine-placement', '%s: element %d node %d is %.3e away from the affine image of its reference node' % (what, e, k, err))
    # no duplicate nodes
    key = onp.round(coords / (1e-9 * (h + 1e-300))).astype(onp.int64)
    if onp.unique(key, axis=0).shape[0] != coords.shape[0]:
        return Failure('duplicate-nodes', '%s: two nodes coincide' % what)
    # shared edge nodes in mutually reversed order
    fn = onp.asarray(pe.faceNodes)
    owners = brute_edges(bconn)
    for key_, own in owners.items():
        if len(own) == 2:
            (e1, s1, _, _), (e2, s2, _, _) = own
            n1 = conns[e1, fn[s1]]
            n2 = conns[e2, fn[s2]]
            if not onp.array_equal(n1, n2[::-1]):
                return Failure('shared-edge-nodes', '%s: elements %d and %d do not share the nodes of their common edge in reversed order (%r vs %r)'
                               % (what, e1, e2, n1.tolist(), n2.tolist()))
    nv, nedge, ne = bc.shape[0], len(owners), bconn.shape[0]
    nint = ref.shape[0] - 3 - 3 * (order - 1)
    if coords.shape[0] != nv + nedge * (order - 1) + ne * nint:
        return Failure('node-count', '%s: %d nodes, expected %d' % (what, coords.shape[0], nv + nedge * (order - 1) + ne * nint))
    return None


@st.composite
def elevate_cases(draw):
    order = draw(st.sampled_from([2, 3, 4, 5, 2, 3]))
    bubble = draw(st.booleans())
    which = draw(st.integers(0, 2))
    mesh = draw([gen.lattice_mesh(nx=(1, 3), ny=(1, 3)), gen.delaunay_mesh(n=(2, 3)), gen.lattice_mesh(nx=(1, 2), ny=(1, 2))][which])
    coords, conns = gen.mesh_arrays(mesh)
    nv, ne = coords.shape[0], conns.shape[0]
    ns = {'ns%d' % i: draw(st.lists(st.integers(0, nv - 1), min_size=0, max_size=4)) for i in range(draw(st.integers(0, 2)))}
    ss = {'ss%d' % i: [[draw(st.integers(0, ne - 1)), draw(st.integers(0, 2))] for _ in range(draw(st.integers(1, 3)))]
          for i in range(draw(st.integers(0, 2)))}
    opts = draw(st.sampled_from(['plain', 'copyNodeSets', 'fromSideSets']))
    return {'mesh': mesh, 'order': order, 'bubble': bubble, 'nodeSets': ns, 'sideSets': ss, 'opts': opts}


def check_elevate(case):
    import jax.numpy as np
    from optimism import Mesh
    base = gen.mesh_arrays(case['mesh'])
    ns = {k: np.array(onp.array(v, dtype=int)) for k, v in case['nodeSets'].items()}
    ss = {k: np.array(onp.array(v, dtype=int).reshape(-1, 2)) for k, v in case['sideSets'].items()}
    opts = case['opts']
    if opts == 'fromSideSets' and not ss:
        opts = 'plain'
    m1 = gen.build_mesh(case['mesh'], nodeSets=ns, sideSets=ss)
    mesh = Mesh.create_higher_order_mesh_from_simplex_mesh(m1, case['order'], useBubbleElement=case['bubble'],
                                                           copyNodeSets=(opts == 'copyNodeSets'),
                                                           createNodeSetsFromSideSets=(opts == 'fromSideSets'))
    what = '%s mesh elevated to order %d%s (%s)' % (case['mesh']['kind'], case['order'], ' +bubble' if case['bubble'] else '', opts)
    fails = []
    f = validity(mesh, what) or check_elevation(base, mesh, case['order'], case['bubble'], what)
    if f:
        fails.append(f)
    else:
        ec, ed = Mesh.create_edges(onp.asarray(m1.conns))
        f = check_edges_against_brute(base[1], ec, ed, what)
        if f:
            fails.append(f)
        if opts == 'copyNodeSets':
            for k, v in case['nodeSets'].items():
                if k not in mesh.nodeSets or onp.asarray(mesh.nodeSets[k]).tolist() != list(v):
                    fails.append(Failure('nodesets-copied', '%s: node set %s not carried over' % (what, k)))
        if opts == 'fromSideSets':
            fn = onp.asarray(mesh.parentElement.faceNodes)
            conns = onp.asarray(mesh.conns)
            for k, v in case['sideSets'].items():
                exp = sorted(set(int(n) for e, s in v for n in conns[e, fn[s]]))
                got = sorted(onp.asarray(mesh.nodeSets.get(k, [])).tolist())
                if got != exp:
                    fails.append(Failure('nodesets-from-sidesets', '%s: node set %s is %r, the nodes on those sides are %r' % (what, k, got, exp)))
        for k, v in case['sideSets'].items():
            if onp.asarray(mesh.sideSets[k]).tolist() != [list(x) for x in v]:
                fails.append(Failure('sidesets-kept', '%s: side set %s changed' % (what, k)))
    interior, same_side = has_interior_and_rotated(base[1])
    classes = ['order%d' % case['order'], 'bubble' if case['bubble'] else 'nobubble', case['mesh']['kind'], opts]
    if same_side:
        classes.append('same-local-side-neighbours')
    if case['mesh'].get('hole'):
        classes.append('hole')
    return Result(fails, classes=classes, nontrivial=bool(interior))


# ---------------------------------------------------------------------------------------------------
# edges only (larger meshes, cheap)
# ---------------------------------------------------------------------------------------------------

def check_edges_only(case):
    from optimism import Mesh
    coords, conns = gen.mesh_arrays(case)
    ec, ed = Mesh.create_edges(conns)
    what = '%s mesh' % case['kind']
    f = check_edges_against_brute(conns, ec, ed, what)
    fails = [f] if f else []
    if not f:
        # boundary edges counter-clockwise: interior of the body on the left
        ec = onp.asarray(ec)
        ed = onp.asarray(ed)
        for i in onp.flatnonzero(ed[:, 2] < 0):
            a, b = coords[ec[i, 0]], coords[ec[i, 1]]
            c = coords[conns[ed[i, 0]]].mean(axis=0)
            if (b[0] - a[0]) * (c[1] - a[1]) - (b[1] - a[1]) * (c[0] - a[0]) <= 0:
                fails.append(Failure('boundary-ccw', '%s: boundary edge %d does not have the body on its left' % (what, i)))
                break
    interior, same_side = has_interior_and_rotated(conns)
    classes = [case['kind']] + (['same-local-side-neighbours'] if same_side else []) + (['hole'] if case.get('hole') else [])
    return Result(fails, classes=classes, nontrivial=bool(interior and same_side))


# ---------------------------------------------------------------------------------------------------
# merging
# ---------------------------------------------------------------------------------------------------

NAMES = ['left', 'right', 'top', 'all', 'block_0', 'b']


@st.composite
def mesh_with_sets(draw, tag):
    mesh = draw(st.one_of(gen.lattice_mesh(nx=(1, 3), ny=(1, 3)), gen.structured_mesh(n=(2, 4))))
    coords, conns = gen.mesh_arrays(mesh)
    nv, ne = coords.shape[0], conns.shape[0]
    default_blocks = draw(st.booleans())
    ns = ss = None
    if draw(st.integers(0, 4)) > 0:
        ns = {draw(st.sampled_from(NAMES)): sorted(set(draw(st.lists(st.integers(0, nv - 1), min_size=0, max_size=5))))
              for _ in range(draw(st.integers(0, 3)))}
    if draw(st.integers(0, 4)) > 0:
        ss = {draw(st.sampled_from(NAMES)): [[draw(st.integers(0, ne - 1)), draw(st.integers(0, 2))] for _ in range(draw(st.integers(0, 3)))]
              for _ in range(draw(st.integers(0, 3)))}
    if default_blocks:
        blocks = {'block_0': list(range(ne))}
    else:
        cut = draw(st.integers(1, ne))
        blocks = {draw(st.sampled_from(NAMES)): list(range(cut))}
        if cut < ne:
            nm = draw(st.sampled_from([n for n in NAMES if n not in blocks]))
            blocks[nm] = list(range(cut, ne))
    return {'mesh': mesh, 'nodeSets': ns, 'sideSets': ss, 'blocks': blocks}


@st.composite
def merge_cases(draw):
    return {'m1': draw(mesh_with_sets('1')), 'm2': draw(mesh_with_sets('2'))}


def _build_with_sets(d):
    import jax.numpy as np
    ns = None if d['nodeSets'] is None else {k: np.array(onp.array(v, dtype=int)) for k, v in d['nodeSets'].items()}
    ss = None if d['sideSets'] is None else {k: (np.array(onp.array(v, dtype=int).reshape(-1, 2)) if len(v) else np.array([]))
                                             for k, v in d['sideSets'].items()}
    bl = {k: np.array(onp.array(v, dtype=int)) for k, v in d['blocks'].items()}
    return gen.build_mesh(d['mesh'], nodeSets=ns, sideSets=ss, blocks=bl)


def check_merge(case):
    import jax.numpy as np
    from optimism import Mesh
    ma, mb = _build_with_sets(case['m1']), _build_with_sets(case['m2'])
    na, nb = ma.coords.shape[0], mb.coords.shape[0]
    ea, eb = ma.conns.shape[0], mb.conns.shape[0]
    da = np.array(onp.arange(2 * na, dtype=float).reshape(na, 2))
    db = np.array(-onp.arange(2 * nb, dtype=float).reshape(nb, 2) - 1.0)
    mesh, disp = Mesh.combine_mesh((ma, da), (mb, db))
    what = 'merged mesh'
    fails = []
    f = validity(mesh, what)
    if f:
        fails.append(f)
    if onp.asarray(mesh.conns).shape[0] != ea + eb or onp.asarray(mesh.coords).shape[0] != na + nb:
        fails.append(Failure('merge-count', 'merged mesh has %d elements / %d nodes, expected %d / %d'
                             % (mesh.conns.shape[0], mesh.coords.shape[0], ea + eb, na + nb)))
    elif not (onp.array_equal(onp.asarray(mesh.coords), onp.vstack([onp.asarray(ma.coords), onp.asarray(mb.coords)])) and
              onp.array_equal(onp.asarray(mesh.conns), onp.vstack([onp.asarray(ma.conns), onp.asarray(mb.conns) + na])) and
              onp.array_equal(onp.asarray(disp), onp.vstack([onp.asarray(da), onp.asarray(db)]))):
        fails.append(Failure('merge-data', 'coordinates / connectivity / displacement not concatenated with the node offset'))
    clash = False

    def contained(kind, s1, s2, off, got, pair):
        nonlocal clash
        for src, o in ((s1, 0), (s2, off)):
            if src is None:
                continue
            for k, v in src.items():
                members = [tuple(x) if pair else int(x) for x in (v if not pair else [[a + o, b] for a, b in v])] if pair else [int(x) + o for x in v]
                if pair:
                    members = [(int(a) + o, int(b)) for a, b in v]
                if not members:
                    continue
                if got is None or k not in got:
                    return Failure('merge-' + kind, '%s %s of an input mesh is missing from the merged mesh' % (kind, k))
                g = onp.asarray(got[k])
                have = set(map(tuple, g.tolist())) if pair else set(g.tolist())
                lost = [m for m in members if m not in have]
                if lost:
                    return Failure('merge-' + kind, '%s %s: members %r of an input mesh are lost in the merged mesh (has %r)'
                                   % (kind, k, lost[:4], sorted(have)[:8]))
        if s1 and s2 and set(s1) & set(s2):
            clash = True
        return None
    for f in (contained('nodeset', case['m1']['nodeSets'], case['m2']['nodeSets'], na, mesh.nodeSets, False),
              contained('sideset', case['m1']['sideSets'], case['m2']['sideSets'], ea, mesh.sideSets, True),
              contained('block', case['m1']['blocks'], case['m2']['blocks'], ea, mesh.blocks, False)):
        if f:
            fails.append(f)
    if not fails:
        tot = sum(onp.asarray(v).size for v in mesh.blocks.values())
        allel = onp.sort(onp.concatenate([onp.asarray(v).ravel() for v in mesh.blocks.values()]))
        if tot != ea + eb or not onp.array_equal(allel, onp.arange(ea + eb)):
            fails.append(Failure('merge-block', 'blocks of the merged mesh do not cover every element exactly once'))
    return Result(fails, classes=['name-clash' if clash else 'disjoint-names'], nontrivial=bool(clash))


# ---------------------------------------------------------------------------------------------------
# readers
# ---------------------------------------------------------------------------------------------------

EXO_TO_NATIVE = [0, 3, 1, 5, 4, 2]


def write_exodus(path, coords, conns_by_block, elem_type, block_names, nodesets, sidesets, elem_num_map):
    import netCDF4
    ds = netCDF4.Dataset(path, 'w', format='NETCDF3_64BIT_OFFSET')
    try:
        ln = 33
        ds.createDimension('len_name', ln)
        ds.createDimension('num_dim', 2)
        ds.createDimension('num_nodes', coords.shape[0])
        ne = sum(c.shape[0] for c in conns_by_block)
        ds.createDimension('num_elem', ne)
        ds.createDimension('num_el_blk', len(conns_by_block))
        ds.createVariable('coordx', 'f8', ('num_nodes',))[:] = coords[:, 0]
        ds.createVariable('coordy', 'f8', ('num_nodes',))[:] = coords[:, 1]

        def names(var, dim, lst):
            v = ds.createVariable(var, 'S1', (dim, 'len_name'), fill_value=b'\x00')
            for i, nm in enumerate(lst):
                for j, ch in enumerate(nm[:ln - 1]):
                    v[i, j] = ch.encode()
        names('eb_names', 'num_el_blk', block_names)
        for i, c in enumerate(conns_by_block):
            ds.createDimension('num_el_in_blk%d' % (i + 1), c.shape[0])
            ds.createDimension('num_nod_per_el%d' % (i + 1), c.shape[1])
            v = ds.createVariable('connect%d' % (i + 1), 'i4', ('num_el_in_blk%d' % (i + 1), 'num_nod_per_el%d' % (i + 1)))
            v.elem_type = elem_type
            v[:] = c + 1
        if nodesets:
            ds.createDimension('num_node_sets', len(nodesets))
            names('ns_names', 'num_node_sets', [n for n, _ in nodesets])
            for i, (_, nodes) in enumerate(nodesets):
                ds.createDimension('num_nod_ns%d' % (i + 1), len(nodes))
                ds.createVariable('node_ns%d' % (i + 1), 'i4', ('num_nod_ns%d' % (i + 1),))[:] = onp.array(nodes) + 1
        if sidesets:
            ds.createDimension('num_side_sets', len(sidesets))
            names('ss_names', 'num_side_sets', [n for n, _ in sidesets])
            for i, (_, es) in enumerate(sidesets):
                ds.createDimension('num_side_ss%d' % (i + 1), len(es))
                ds.createVariable('elem_ss%d' % (i + 1), 'i4', ('num_side_ss%d' % (i + 1),))[:] = onp.array([e for e, s in es]) + 1
                ds.createVariable('side_ss%d' % (i + 1), 'i4', ('num_side_ss%d' % (i + 1),))[:] = onp.array([s for e, s in es]) + 1
        if elem_num_map is not None:
            ds.createVariable('elem_num_map', 'i4', ('num_elem',))[:] = onp.array(elem_num_map)
    finally:
        ds.close()


@st.composite
def read_cases(draw):
    fmt = draw(st.sampled_from(['exodus-tri3', 'exodus-tri6', 'json', 'exodus-tri3']))
    mesh = draw(st.one_of(gen.lattice_mesh(nx=(1, 3), ny=(1, 3)), gen.delaunay_mesh(n=(2, 3)), gen.structured_mesh(n=(2, 4))))
    coords, conns = gen.mesh_arrays(mesh)
    nv, ne = coords.shape[0], conns.shape[0]
    nblk = min(draw(st.integers(1, 3)), ne)
    cuts = sorted(draw(st.lists(st.integers(1, ne - 1), min_size=nblk - 1, max_size=nblk - 1, unique=True))) if nblk > 1 else []
    bnames = [draw(st.sampled_from(['', 'blk%d' % i, 'material_%d' % i])) for i in range(len(cuts) + 1)]
    nsets = [(draw(st.sampled_from(['', 'ns%d' % i])), draw(st.lists(st.integers(0, nv - 1), min_size=1, max_size=5, unique=True)))
             for i in range(draw(st.integers(0, 3)))]
    ssets = [(draw(st.sampled_from(['', 'ss%d' % i])), [[draw(st.integers(0, ne - 1)), draw(st.integers(0, 2))] for _ in range(draw(st.integers(1, 4)))])
             for i in range(draw(st.integers(0, 3)))]
    emap = draw(st.sampled_from(['none', 'identity', 'offset']))
    etype = draw(st.sampled_from(['TRI3', 'tri', 'tri3', 'Tri3']))
    return {'fmt': fmt, 'mesh': mesh, 'cuts': cuts, 'bnames': bnames, 'nsets': nsets, 'ssets': ssets, 'emap': emap, 'etype': etype}


def check_read(case):
    coords, conns = gen.mesh_arrays(case['mesh'])
    ne = conns.shape[0]
    tmp = tempfile.mkdtemp(prefix='c13_')
    fails = []
    classes = [case['fmt']]
    try:
        if case['fmt'] == 'json':
            from optimism import ReadMesh
            path = os.path.join(tmp, 'm.json')
            ns = {(n or 'nodeset_%d' % (i + 1)): v for i, (n, v) in enumerate(case['nsets'])}
            ss = {(n or 'sideset_%d' % (i + 1)): [[e for e, s in v], [s for e, s in v]] for i, (n, v) in enumerate(case['ssets'])}
            with open(path, 'w') as f:
                json.dump({'coordinates': coords.tolist(), 'connectivity': conns.tolist(), 'nodeSets': ns, 'sideSets': ss}, f)
            mesh = ReadMesh.read_json_mesh(path)
            f = validity(mesh, 'json mesh', require_blocks=False)
            if f:
                fails.append(f)
            elif not (onp.array_equal(onp.asarray(mesh.coords), coords) and onp.array_equal(onp.asarray(mesh.conns), conns)):
                fails.append(Failure('read-data', 'json reader: coordinates/connectivity differ from the file'))
            else:
                for k, v in ns.items():
                    if onp.asarray(mesh.nodeSets[k]).tolist() != v:
                        fails.append(Failure('read-nodeset', 'json reader: node set %s differs' % k))
                for k, v in ss.items():
                    exp = [[e, s] for e, s in zip(*v)]
                    if onp.asarray(mesh.sideSets[k]).tolist() != exp:
                        fails.append(Failure('read-sideset', 'json reader: side set %s differs' % k))
        else:
            from optimism import ReadExodusMesh
            path = os.path.join(tmp, 'm.exo')
            tri6 = case['fmt'] == 'exodus-tri6'
            if tri6:
                # build a 6-node mesh in Exodus node order: v0 v1 v2 m01 m12 m20, mid-side nodes at the true mid-points
                owners = brute_edges(conns)
                mid = {}
                xy = [c for c in coords.tolist()]
                for key in sorted(owners):
                    mid[key] = len(xy)
                    xy.append((0.5 * (coords[key[0]] + coords[key[1]])).tolist())
                c6 = []
                for c in conns:
                    m = [mid[(min(int(c[a]), int(c[b])), max(int(c[a]), int(c[b])))] for a, b in ((0, 1), (1, 2), (2, 0))]
                    c6.append(list(map(int, c)) + m)
                fcoords, fconns, etype = onp.array(xy), onp.array(c6), 'TRI6' if case['etype'].isupper() else 'tri6'
            else:
                fcoords, fconns, etype = coords, conns, case['etype']
            bounds = [0] + case['cuts'] + [ne]
            cb = [fconns[bounds[i]:bounds[i + 1]] for i in range(len(bounds) - 1)]
            emap = None if case['emap'] == 'none' else (list(range(1, ne + 1)) if case['emap'] == 'identity' else list(range(101, 101 + ne)))
            nsets = [(n, v) for n, v in case['nsets']]
            write_exodus(path, fcoords, cb, etype, case['bnames'], nsets, [(n, v) for n, v in case['ssets']], emap)
            mesh = ReadExodusMesh.read_exodus_mesh(path)
            what = 'exodus %s mesh' % etype
            f = validity(mesh, what)
            if f:
                fails.append(f)
            elif not onp.array_equal(onp.asarray(mesh.coords), fcoords):
                fails.append(Failure('read-data', '%s: coordinates differ from the file' % what))
            else:
                mconn = onp.asarray(mesh.conns)
                vn = onp.asarray(mesh.parentElement.vertexNodes)
                if mconn.shape != fconns.shape or not onp.array_equal(mconn[:, vn], conns):
                    fails.append(Failure('read-data', '%s: element vertices differ from the file' % what))
                elif tri6:
                    f = check_elevation((coords, conns), mesh, 2, False, what)
                    # check_elevation assumes vertex nodes are numbered first and edge nodes follow: true for the file written above
                    if f:
                        fails.append(f)
                names = [n or 'block_%d' % (i + 1) for i, n in enumerate(case['bnames'])]
                if len(set(names)) == len(names):
                    for i, nm in enumerate(names):
                        if nm not in mesh.blocks or onp.asarray(mesh.blocks[nm]).tolist() != list(range(bounds[i], bounds[i + 1])):
                            fails.append(Failure('read-block', '%s: block %s does not hold elements %d..%d' % (what, nm, bounds[i], bounds[i + 1] - 1)))
                            break
                    if emap is not None and mesh.block_maps:
                        for i, nm in enumerate(names):
                            if onp.asarray(mesh.block_maps[nm]).tolist() != emap[bounds[i]:bounds[i + 1]]:
                                fails.append(Failure('read-block-map', '%s: element id map of block %s differs' % (what, nm)))
                                break
                nsn = [n or 'nodeset_%d' % (i + 1) for i, (n, _) in enumerate(case['nsets'])]
                if len(set(nsn)) == len(nsn):
                    for nm, (_, v) in zip(nsn, case['nsets']):
                        if nm not in mesh.nodeSets or onp.asarray(mesh.nodeSets[nm]).tolist() != v:
                            fails.append(Failure('read-nodeset', '%s: node set %s differs from the file' % (what, nm)))
                            break
                ssn = [n or 'sideset_%d' % (i + 1) for i, (n, _) in enumerate(case['ssets'])]
                if len(set(ssn)) == len(ssn):
                    for nm, (_, v) in zip(ssn, case['ssets']):
                        if nm not in mesh.sideSets or onp.asarray(mesh.sideSets[nm]).tolist() != [list(x) for x in v]:
                            fails.append(Failure('read-sideset', '%s: side set %s differs from the file' % (what, nm)))
                            break
            classes += ['blocks%d' % len(cb), 'emap-' + case['emap']]
            if any(n == '' for n in case['bnames']) or any(n == '' for n, _ in case['nsets']) or any(n == '' for n, _ in case['ssets']):
                classes.append('unnamed-set')
    finally:
        shutil.rmtree(tmp, ignore_errors=True)
    nt = bool('blocks2' in classes or 'blocks3' in classes or 'unnamed-set' in classes or case['fmt'] == 'json')
    return Result(fails, classes=classes, nontrivial=nt)


EXPL = _structured_explicit()

SUBCHECKS = [
    Sub('structured', structured_cases, check_structured, quick=40, thorough=800, shards_quick=2, shards_thorough=3, explicit=EXPL),
    Sub('edges', lambda: st.one_of(gen.lattice_mesh(nx=(1, 6), ny=(1, 6)), gen.delaunay_mesh(n=(2, 6))), check_edges_only,
        quick=300, thorough=8000, shards_quick=2, shards_thorough=2, required=('same-local-side-neighbours', 'hole', 'lattice', 'delaunay')),
    Sub('elevate', elevate_cases, check_elevate, quick=60, thorough=1500, shards_quick=6, shards_thorough=6,
        required=('order2', 'order3', 'order4', 'order5', 'bubble', 'copyNodeSets', 'fromSideSets', 'same-local-side-neighbours')),
    Sub('merge', merge_cases, check_merge, quick=200, thorough=6000, shards_quick=2, shards_thorough=2, required=('name-clash',)),
    Sub('read', read_cases, check_read, quick=150, thorough=4000, shards_quick=4, shards_thorough=3,
        required=('json', 'exodus-tri3', 'exodus-tri6', 'blocks2', 'unnamed-set', 'emap-none')),
]
