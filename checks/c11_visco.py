"""C11 - viscoelastic models dissipate, relax and keep viscous flow isochoric; instantaneous / equilibrium limits."""
import math

import numpy as onp
from hypothesis import strategies as st

from vlib.core import Sub, Result, Failure
from vlib import gen
from vlib import materials as mats

PROPERTY = 'C11'
EPS = gen.EPS
RULE = ('Single- and three-branch models with moduli and relaxation times over four decades; histories of up to 12 (F, dt) steps with '
        'dt/tau from 1e-6 to 1e6, F = R U from the deformation classes (uniaxial, equibiaxial, dilation, simple shear, generic, generic '
        'with rotation) and holds of 2-4 steps. After every step: reported dissipated energy >= 0, det of every branch viscous '
        'distortion = 1, and during holds the stored non-equilibrium energy (recomputed by the checker from the committed state with '
        'numpy) does not increase. Virgin limits: energy -> instantaneous value for dt/tau <= 1e-6 and -> equilibrium value for dt/tau >= '
        '1e6. Non-trivial: history containing a hold of >= 2 steps after a loading step.')
ASSUMPTIONS = ['checker-side log strains via numpy eigh; bound for the limits: 3*(dt/tau_min) resp. 3*(tau_max/dt) times the non-equilibrium energy',
               'D1 (compiled vs op-by-op) is matched by re-evaluating op-by-op']

_C = {}


def compiled(name):
    if name not in _C:
        import jax
        cfg = mats.CONFIGS[name]
        W = mats.energy_fn(cfg)
        S = mats.state_new_fn(cfg)
        Q = mats.qoi_fn(cfg)

        def step(H, state, dt, pv):
            return S(H, state, dt, pv), Q(H, state, dt, pv), W(H, state, dt, pv)
        _C[name] = (jax.jit(step), step)
    return _C[name]


def KNOWN_D1(sub, case, failure):
    return bool(failure.data.get('fusion_only') is True)


KNOWN_MATCH = {'D1': KNOWN_D1}


@st.composite
def cases(draw):
    name = ['visco1', 'visco3'][draw(st.integers(0, 1))]
    cfg = mats.CONFIGS[name]
    pr = draw(mats.properties(cfg))
    n = draw(st.integers(2, 8))
    steps = []
    for _ in range(n):
        kind = ['hold', 'load', 'hold', 'unload', 'load'][draw(st.integers(0, 4))] if steps else 'load'
        f = draw(gen.defgrad(classes=('uniaxial_inplane', 'equibiaxial', 'dilation', 'simple_shear', 'generic', 'generic_planestrain'),
                             strain_exp=(-4, 0), max_strain=0.5, rotate=True))
        nh = draw(st.integers(2, 4))
        steps.append({'kind': kind, 'F': f['F'], 'cls': f['cls'], 'dtrel': draw(gen.logfloat(-6, 6)), 'nhold': nh})
    lim = draw(gen.defgrad(strain_exp=(-3, 0), max_strain=0.5))
    return {'model': name, 'props': pr, 'steps': steps, 'limF': lim['F']}


def dev(A):
    return A - onp.trace(A) / 3 * onp.eye(3)


def log_strain_sqrt(C):
    w, V = onp.linalg.eigh(0.5 * (C + C.T))
    return (V * (0.5 * onp.log(w))) @ V.T


def branches(cfg, pvec):
    p = dict(zip(cfg.pnames, pvec))
    if cfg.family == 'visco1':
        return [(p['non equilibrium shear modulus'], p['relaxation time'])], p
    return [(p['non equilibrium shear modulus %d' % n], p['relaxation time %d' % n]) for n in (1, 2, 3)], p


def stored_neq(F, state, br):
    tot = 0.0
    dets = []
    for i, (G, tau) in enumerate(br):
        Fv = onp.asarray(state[9 * i:9 * i + 9]).reshape(3, 3)
        Fe = F @ onp.linalg.inv(Fv)
        Ee = log_strain_sqrt(Fe.T @ Fe)
        tot += G * onp.sum(dev(Ee) ** 2)
        dets.append(onp.linalg.det(Fv))
    return tot, dets


def w_eq(F, p):
    K, G = p['equilibrium bulk modulus'], p['equilibrium shear modulus']
    J = onp.linalg.det(F)
    return 0.5 * K * (0.5 * J * J - 0.5 - math.log(J)) + 0.5 * G * (J ** (-2.0 / 3.0) * onp.sum(F * F) - 3.0)


def check(case):
    import jax
    import jax.numpy as np
    cfg = mats.CONFIGS[case['model']]
    pr = case['props']
    pv = np.array(pr['pvec'])
    br, p = branches(cfg, pr['pvec'])
    taus = [t for _, t in br]
    fstep, raw = compiled(case['model'])
    state = mats.library_initial_state(cfg, pr['pvec']).copy()
    I = onp.eye(3)
    fails = []
    classes = set([case['model']])
    nstep = 0
    had_load = False
    nt = False
    F = I.copy()

    def do(Fk, dt, what, hold_prev=None):
        nonlocal state, nstep
        out = fstep(np.array(Fk - I), np.array(state), dt, pv)
        sn, q, w = onp.asarray(out[0]), float(out[1]), float(out[2])
        data = dict(step=nstep, model=case['model'], dt=dt)
        local = []
        if not (onp.all(onp.isfinite(sn)) and math.isfinite(q) and math.isfinite(w)):
            local.append(Failure('finite', '%s: state / dissipation / energy not finite (dt=%.2e)' % (what, dt), **data))
        else:
            neq_old, _ = stored_neq(Fk, state, br)
            scale = neq_old + pr['stiff'] * 1e-300
            if q < -1e-12 * scale:
                local.append(Failure('dissipation', '%s: dissipated energy %.3e < 0 (stored non-equilibrium energy %.3e)' % (what, q, neq_old), **data))
            neq_new, dets = stored_neq(Fk, sn, br)
            for i, dd in enumerate(dets):
                if abs(dd - 1) > 1e-12 * (nstep + 2):
                    local.append(Failure('isochoric', '%s: det Fv of branch %d = 1 %+.3e' % (what, i + 1, dd - 1), **data))
            # the stored energy G |dev Ee|^2 is recomputed from a log strain with absolute rounding ~eps: error ~ 2 sqrt(E G) * 8 eps
            if hold_prev is not None and neq_new > hold_prev * (1 + 1e-10) + 1e-14 * pr['stiff'] * 1e-8 + 64 * EPS * math.sqrt(hold_prev * pr['stiff']):
                local.append(Failure('relaxation', '%s: stored non-equilibrium energy rose from %.12g to %.12g while the deformation was held'
                                     % (what, hold_prev, neq_new), **data))
        if local:
            with jax.disable_jit():
                oe = raw(np.array(Fk - I), np.array(state), dt, pv)
            agree = all(onp.allclose(onp.asarray(a), onp.asarray(b), rtol=1e-9, atol=1e-13) for a, b in zip(oe, out))
            for f in local:
                f.data['fusion_only'] = not agree
            fails.extend(local)
            return None
        state = sn
        nstep += 1
        return neq_new

    for stp in case['steps']:
        if fails:
            break
        kind = stp['kind']
        tau_ref = taus[nstep % len(taus)]
        dt = stp['dtrel'] * tau_ref
        if kind in ('load', 'unload'):
            F = onp.array(stp['F']) if kind == 'load' else I.copy()
            r = do(F, dt, '%s %s step %d (%s)' % (case['model'], kind, nstep, stp['cls']))
            had_load = had_load or kind == 'load'
            classes.add(kind)
            classes.add(stp['cls'])
        else:
            prev, _ = stored_neq(F, state, br)
            for h in range(stp['nhold']):
                prev = do(F, dt, '%s hold step %d' % (case['model'], nstep), hold_prev=prev)
                if prev is None:
                    break
            classes.add('hold')
            if had_load:
                nt = True
        classes.add('dt/tau=1e%d' % int(math.floor(math.log10(stp['dtrel']) / 3) * 3))
    # virgin limits
    if not fails:
        Fl = onp.array(case['limF'])
        virgin = mats.library_initial_state(cfg, pr['pvec'])
        E = log_strain_sqrt(Fl.T @ Fl)
        wneq = sum(G for G, _ in br) * onp.sum(dev(E) ** 2)
        weq = w_eq(Fl, p)
        for rel, lim, name in ((1e-7, weq + wneq, 'instantaneous'), (1e7, weq, 'equilibrium')):
            dt = rel * (min(taus) if rel < 1 else max(taus))
            w = float(fstep(np.array(Fl - I), np.array(virgin), dt, pv)[2])
            bound = 3 * (rel if rel < 1 else 1 / rel) * len(br) * wneq + 1e-11 * (abs(weq) + wneq) + 50 * EPS * pr['stiff']
            if not abs(w - lim) <= bound:
                fails.append(Failure('limit-' + name, '%s: virgin energy at dt/tau = %.0e is %.12g, %s value %.12g (allowed %.2e)'
                                     % (case['model'], rel, w, name, lim, bound), model=case['model'], fusion_only=False))
    return Result(fails, classes=sorted(classes), nontrivial=nt, n_eval=nstep + 2)


SUBCHECKS = [
    Sub('history', cases, check, quick=400, thorough=5000, shards_quick=8, shards_thorough=12,
        required=('visco1', 'visco3', 'hold', 'load', 'unload', 'simple_shear', 'generic'), budget_quick=170),
]
