"""C07 - solution sensitivities equal implicit-function-theorem derivatives; helper VJPs; adjoint function space."""
import math

import numpy as onp
from hypothesis import strategies as st

from vlib.core import Sub, Result, Failure, capture_stdout
from vlib import gen
from vlib import materials as mats

PROPERTY = 'C07'
EPS = gen.EPS
RULE = ('solve: smooth parameterised energies with SPD Hessian (n = 2..8) in which the boundary-condition, state, design and time slots all '
        'enter the gradient; random and unit cotangents; reverse-mode derivatives through nonlinear_solve (design slot) and '
        'nonlinear_solve_with_state (slots 0, 1, 2, 4) are compared with -(dg/dp)^T H^-1 v from dense jax.jacfwd / numpy solve at the returned '
        'solution; pullbacks of several load steps on one objective are applied after all forward solves (multi-step history). helpers: '
        'small meshes (orders 1-2) x {neo-Hookean, J2, viscoelastic with dt > 0} x random coordinates / displacements / states; every '
        'MechanicsInverse VJP is compared with the transposed action of the dense forward-mode Jacobian of the same map built from '
        'Mechanics.create_mechanics_functions. adjoint-fs: function space rebuilt from perturbed coordinates vs direct construction on the '
        'moved mesh, both 2D modes, orders 1-3. Non-trivial: the cotangent is not orthogonal to the sensitivity and the slot influences the solution.')
ASSUMPTIONS = ['adjoint linear solve: documented CG tolerance max(cg_tol, 1e-5 |v|) propagated through |H^-1| |dg/dp|',
               'dense forward-mode Jacobians (jax.jacfwd) are the reference for the hand-wired reverse-mode helpers (wiring test: slot, transpose, shape)']

_O = {}


def make_energy(n):
    import jax
    import jax.numpy as np

    def f(x, p):
        d = p[2]
        theta, Avec, q = d[:n], d[n:n + n * n], d[n + n * n]
        A = Avec.reshape(n, n)
        val = 0.5 * x @ (A @ x) + 0.5 * np.sum(jax.nn.softplus(theta) * x * x) + q * np.sum(x ** 4)
        val = val - x @ p[0] - x @ np.sin(p[1]) - p[4] * np.sum(x) / n
        return val
    return f


def get_objective(n):
    if n not in _O:
        import jax.numpy as np
        from optimism import Objective
        p0 = Objective.Params(np.zeros(n), np.zeros(n), np.concatenate([np.zeros(n), np.eye(n).ravel(), np.array([0.1])]), None, 0.0)
        with capture_stdout():
            _O[n] = Objective.Objective(make_energy(n), np.zeros(n), p0)
    return _O[n]


@st.composite
def solve_cases(draw):
    n = [2, 3, 5, 8][draw(st.integers(0, 3))]
    G = onp.array(draw(st.lists(gen.floats(-1, 1), min_size=n * n, max_size=n * n))).reshape(n, n)
    Q, _ = onp.linalg.qr(G + 3 * onp.eye(n))
    lam = 10.0 ** (-draw(gen.floats(0, 3)) * onp.array(sorted(draw(st.lists(gen.floats(0, 1), min_size=n, max_size=n)))))
    A = (Q * lam) @ Q.T
    A = 0.5 * (A + A.T)
    steps = []
    for _ in range(draw(st.integers(1, 3))):
        steps.append({'p0': draw(st.lists(gen.floats(-1, 1), min_size=n, max_size=n)), 'p1': draw(st.lists(gen.floats(-1, 1), min_size=n, max_size=n)),
                      'theta': draw(st.lists(gen.floats(-1, 1), min_size=n, max_size=n)), 'q': draw(gen.floats(0.01, 1.0)), 'p4': draw(gen.floats(-1, 1))})
    vk = draw(st.integers(0, 2))
    v = draw(st.lists(gen.floats(-1, 1), min_size=n, max_size=n))
    return {'n': n, 'A': A.tolist(), 'steps': steps, 'vkind': vk, 'v': v, 'api': ['with_state', 'design', 'with_state'][draw(st.integers(0, 2))]}


def check_solve(case):
    import jax
    import jax.numpy as np
    from optimism import Objective, EquationSolver as ES
    from optimism.inverse import NonlinearSolve
    n = case['n']
    o = get_objective(n)
    f = make_energy(n)
    settings = ES.get_settings(tol=1e-11, max_trust_iters=100)
    v = onp.array(case['v'])
    if case['vkind'] == 1 or onp.linalg.norm(v) < 1e-3:
        v = onp.eye(n)[int(abs(case['v'][0]) * (n - 1e-9))]
    Avec = onp.array(case['A']).ravel()
    pulls = []
    fails = []
    with capture_stdout():
        for stp in case['steps']:
            p = Objective.Params(np.array(stp['p0']), np.array(stp['p1']), np.concatenate([np.array(stp['theta']), np.array(Avec), np.array([stp['q']])]),
                                 None, np.array(stp['p4']))
            x0 = np.zeros(n)
            try:
                if case['api'] == 'design':
                    o.p = p
                    x, pull = jax.vjp(lambda d: NonlinearSolve.nonlinear_solve(o, settings, x0, d), p[2])
                else:
                    x, pull = jax.vjp(lambda pp: NonlinearSolve.nonlinear_solve_with_state(o, settings, x0, pp), p)
            except Exception as e:          # any exception while differentiating through the solve breaks "derivatives exist"
                import traceback
                return Result(Failure('derivative-exists', 'reverse-mode differentiation through %s raised %s: %s'
                                      % ('nonlinear_solve' if case['api'] == 'design' else 'nonlinear_solve_with_state', type(e).__name__, str(e)[:200])), nontrivial=True)
            pulls.append((p, onp.asarray(x), pull))
        outs = []
        for p, x, pull in pulls:            # all pullbacks AFTER all forward solves (history on one objective)
            try:
                outs.append(pull(np.array(v)))
            except Exception as e:
                return Result(Failure('derivative-exists', 'pullback raised %s: %s' % (type(e).__name__, str(e)[:200])), nontrivial=True)
    classes = [case['api'], 'steps%d' % len(pulls)]
    nt = False
    for k, ((p, x, pull), out) in enumerate(zip(pulls, outs)):
        g = jax.grad(f)(np.array(x), p)
        if float(np.linalg.norm(g)) > 1e-8:
            return Result(inconclusive='forward-solve-not-converged')
        H = onp.asarray(jax.hessian(f)(np.array(x), p))
        lamH = onp.linalg.eigvalsh(0.5 * (H + H.T))
        z = onp.linalg.solve(H, v)
        slots = {'design': [2], 'with_state': [0, 1, 2, 4]}[case['api']]
        got = {2: out[0]} if case['api'] == 'design' else {s: out[0][s] for s in slots}
        for s in slots:
            def gslot(q, s=s):
                t = list(p)
                t[s] = q
                return jax.grad(f)(np.array(x), tuple(t))
            J = onp.asarray(jax.jacfwd(gslot)(p[s])).reshape(n, -1)
            ref = -(J.T @ z)
            gs = onp.asarray(got[s]).ravel() if got[s] is not None else None
            data = dict(slot=s, step=k, api=case['api'])
            if gs is None:
                fails.append(Failure('cotangent-missing', 'no cotangent returned for parameter slot %d' % s, **data))
                continue
            if gs.shape != ref.shape or not onp.all(onp.isfinite(gs)):
                fails.append(Failure('cotangent-shape', 'cotangent for slot %d has shape %r / non-finite entries' % (s, gs.shape), **data))
                continue
            bound = 2 * onp.linalg.norm(J, 2) / lamH[0] * max(settings.cg_tol, settings.cg_inexact_solve_ratio * onp.linalg.norm(v)) + 1e-9 * onp.linalg.norm(ref)
            err = onp.linalg.norm(gs - ref)
            if err > bound:
                fails.append(Failure('sensitivity', 'load step %d of %d, slot %d (%s): cotangent differs from -(dg/dp)^T H^-1 v by %.3e (|ref| %.3e, allowed %.1e)'
                                     % (k, len(pulls), s, case['api'], err, onp.linalg.norm(ref), bound), **data))
            if onp.linalg.norm(ref) > 1e-6 * onp.linalg.norm(v):
                nt = True
    return Result(fails, classes=classes, nontrivial=nt, n_eval=len(pulls))


# ---------------------------------------------------------------------------------------------------
# MechanicsInverse helper products
# ---------------------------------------------------------------------------------------------------

import sys as _sys
_T = '--tier thorough' in ' '.join(_sys.argv) or __import__('os').environ.get('VERIF_TIER') == 'thorough'
HELPER_MODELS = ['neohookean/adagio', 'j2/small/linear', 'visco1'] + (['j2/large/voce'] if _T else [])


PRESETS = {
    'neohookean/adagio': [[10.0, 0.3], [1.0, 0.45]],
    'j2/small/linear': [[100.0, 0.25, 1.0, 5.0], [10.0, 0.0, 0.05, 0.1]],
    'j2/large/voce': [[100.0, 0.25, 1.0, 2.0, 0.05], [10.0, 0.3, 0.2, 0.5, 0.01]],
    'visco1': [[10.0, 3.0, 5.0, 0.7], [2.0, 1.0, 0.3, 5.0]],
}


def preset_mesh(meshid, order):
    """Three fixed distorted two-cell meshes (jitter, stretch, rotation from a fixed table): compiled helpers are cached per mesh."""
    rng = onp.random.RandomState(100 + meshid)
    coords = onp.array([[0, 0], [1, 0], [2, 0], [0, 1], [1, 1], [2, 1.0]])
    coords = coords + 0.2 * rng.uniform(-1, 1, coords.shape)
    th = rng.uniform(0, 2 * math.pi)
    A = gen.rot2(th) @ onp.diag([1.0, rng.uniform(0.5, 3.0)]) * rng.choice([0.1, 1.0, 7.0])
    coords = coords @ A.T + rng.uniform(-3, 3, 2)
    conns = onp.array([[0, 1, 4], [0, 4, 3], [1, 2, 5], [1, 5, 4]]) if meshid % 2 == 0 else onp.array([[1, 4, 3], [3, 0, 1], [2, 5, 4], [4, 1, 2]])
    return {'kind': 'explicit', 'coords': coords.tolist(), 'conns': conns.tolist()}


def helper_cases_for(name):
    return helper_cases(name)


@st.composite
def helper_cases(draw, name):
    # compiling the helper set for one (model, constants, order, mesh) costs ~50 s: the quick tier uses two meshes per model
    return {'model': name, 'preset': draw(st.integers(0, 1)) if _T else 0, 'order': [1, 1, 2][draw(st.integers(0, 2))] if _T else 1,
            'meshid': draw(st.integers(0, 2 if _T else (0 if name == 'visco1' else 1))),
            'ucoef': draw(st.lists(gen.floats(-1, 1), min_size=12, max_size=12)), 'amp': draw(gen.logfloat(-3, -1)), 'dtrel': draw(gen.logfloat(-1, 1)),
            'seed': draw(st.integers(0, 10 ** 6)), 'evolve': draw(st.booleans())}


_H = {}


def helper_setup(name, preset, order, meshid):
    key = (name, preset, order, meshid)
    if key in _H:
        return _H[key]
    import jax
    import jax.numpy as np
    from optimism import FunctionSpace, QuadratureRule, Mechanics, Interpolants
    from optimism.inverse import MechanicsInverse, AdjointFunctionSpace
    cfg = mats.CONFIGS[name]
    pvec = PRESETS[name][preset]
    desc = preset_mesh(meshid, order)
    mesh = gen.build_mesh(desc, order=order)
    quad = QuadratureRule.create_quadrature_rule_on_triangle(2 * order - 1)
    fs = FunctionSpace.construct_function_space(mesh, quad)
    with capture_stdout():
        model = mats.make_model(cfg, pvec)
    mf = Mechanics.create_mechanics_functions(fs, 'plane strain', model)
    shapeOnRef = Interpolants.compute_shapes(mesh.parentElement, quad.xigauss)

    def fs_of(x):
        return AdjointFunctionSpace.construct_function_space_for_adjoint(x, shapeOnRef, mesh, quad)

    def update_of(u, q, x, dt):
        return Mechanics.create_mechanics_functions(fs_of(x), 'plane strain', model).compute_updated_internal_variables(u, q, dt)

    def energy_of(u, q, x, dt):
        return Mechanics.create_mechanics_functions(fs_of(x), 'plane strain', model).compute_strain_energy(u, q, dt)
    S = {'mesh': mesh, 'desc': desc, 'mf': mf, 'pvec': pvec, 'stiff': max(pvec[0], 1.0), 'tau': pvec[3] if name == 'visco1' else 1.0,
         'Jq': jax.jit(jax.jacfwd(update_of, 1)), 'JU': jax.jit(jax.jacfwd(update_of, 0)), 'JX': jax.jit(jax.jacfwd(update_of, 2)),
         'Ri': jax.jit(jax.jacfwd(lambda u, q, x, dt: jax.grad(energy_of)(u, q, x, dt), 1)),
         'Rx': jax.jit(jax.jacfwd(lambda u, q, x, dt: jax.grad(energy_of)(u, q, x, dt), 2)),
         'iv': MechanicsInverse.create_ivs_update_inverse_functions(fs, 'plane strain', model)}
    # the residual helpers take the energy function of the caller; dt travels in the (otherwise unused) parameter slot q
    S['rf4'] = MechanicsInverse.create_path_dependent_residual_inverse_functions(lambda u, q, ivq, x: energy_of(u, ivq, x, q))
    S['rf3'] = MechanicsInverse.create_residual_inverse_functions(lambda u, q, x: energy_of(u, np.zeros((mesh.conns.shape[0], len(quad), 0)), x, q))
    _H[key] = S
    return S


def check_helpers(case):
    import jax.numpy as np
    from checks.c02_stiffness import smooth_field
    cfg = mats.CONFIGS[case['model']]
    S = helper_setup(case['model'], case['preset'], case['order'], case['meshid'])
    mesh, mf = S['mesh'], S['mf']
    coords = onp.asarray(mesh.coords)
    U = smooth_field(coords, case['ucoef'], case['amp'] * (3 if cfg.family == 'j2' else 1))
    dt = case['dtrel'] * S['tau'] if cfg.family.startswith('visco') else 0.0
    rng = onp.random.RandomState(case['seed'])
    ivs = onp.asarray(mf.compute_initial_state())
    if case['evolve'] and ivs.size:
        ivs = onp.asarray(mf.compute_updated_internal_variables(np.array(0.7 * U), np.array(ivs), dt))
    if not onp.all(onp.isfinite(ivs)):
        return Result(inconclusive='state-nonfinite')
    fails = []
    Uj, Qj, Xj = np.array(U), np.array(ivs), np.array(coords)
    c1_, t1_ = gen.mesh_arrays(S['desc'])
    hmin = math.sqrt(2 * onp.abs(gen._tri_areas(c1_, t1_)).min())
    # products below this are rounding noise: the energy has absolute round-off ~ulp*stiffness, derivatives w.r.t. positions scale with 1/h
    floor = 1e-6 * S['stiff'] * max(1.0, 1.0 / hmin, 1.0 / hmin ** 2)

    def rel(a, b):
        return float(onp.abs(onp.asarray(a) - onp.asarray(b)).max() / (onp.abs(onp.asarray(b)).max() + floor))
    classes = [case['model'], 'order%d' % case['order'], 'evolved' if case['evolve'] else 'virgin', 'mesh%d' % case['meshid']]
    vx = np.array(rng.standard_normal(U.shape))
    if ivs.size:
        iv = S['iv']
        av = np.array(rng.standard_normal(ivs.shape))
        Jq = onp.asarray(iv.ivs_update_jac_ivs_prev(Uj, Qj, dt))
        ne, nq, ns = ivs.shape
        Jd = onp.asarray(S['Jq'](Uj, Qj, Xj, dt))
        ref = onp.array([[Jd[e, k, :, e, k, :] for k in range(nq)] for e in range(ne)])
        if Jq.shape != ref.shape or rel(Jq, ref) > 1e-9:
            fails.append(Failure('ivs-jac-ivs-prev', '%s: ivs_update_jac_ivs_prev differs from the dense Jacobian (rel %.2e)' % (case['model'], rel(Jq, ref) if Jq.shape == ref.shape else -1)))
        refU = onp.tensordot(onp.asarray(av), onp.asarray(S['JU'](Uj, Qj, Xj, dt)), axes=([0, 1, 2], [0, 1, 2]))
        gotU = onp.asarray(iv.ivs_update_jac_disp_vjp(Uj, Qj, av, dt))
        if gotU.shape != refU.shape or rel(gotU, refU) > 1e-9:
            fails.append(Failure('ivs-jac-disp-vjp', '%s (dt=%.3g): ivs_update_jac_disp_vjp differs from the transposed dense Jacobian (rel %.2e)'
                                 % (case['model'], dt, rel(gotU, refU) if gotU.shape == refU.shape else -1)))
        refX = onp.tensordot(onp.asarray(av), onp.asarray(S['JX'](Uj, Qj, Xj, dt)), axes=([0, 1, 2], [0, 1, 2]))
        gotX = onp.asarray(iv.ivs_update_jac_coords_vjp(Uj, Qj, Xj, av, dt))
        if gotX.shape != refX.shape or rel(gotX, refX) > 1e-9:
            fails.append(Failure('ivs-jac-coords-vjp', '%s: ivs_update_jac_coords_vjp differs from the transposed dense Jacobian (rel %.2e)'
                                 % (case['model'], rel(gotX, refX) if gotX.shape == refX.shape else -1)))
        classes.append('ivs-helpers')
        refi = onp.tensordot(onp.asarray(vx), onp.asarray(S['Ri'](Uj, Qj, Xj, dt)), axes=([0, 1], [0, 1]))
        goti = onp.asarray(S['rf4'].residual_jac_ivs_prev_vjp(Uj, dt, Qj, Xj, vx))
        if goti.shape != refi.shape or rel(goti, refi) > 1e-9:
            fails.append(Failure('residual-jac-ivs-vjp', '%s: residual_jac_ivs_prev_vjp differs from the transposed dense Jacobian (rel %.2e)'
                                 % (case['model'], rel(goti, refi) if goti.shape == refi.shape else -1)))
        refc = onp.tensordot(onp.asarray(vx), onp.asarray(S['Rx'](Uj, Qj, Xj, dt)), axes=([0, 1], [0, 1]))
        gotc = onp.asarray(S['rf4'].residual_jac_coords_vjp(Uj, dt, Qj, Xj, vx))
    else:
        refc = onp.tensordot(onp.asarray(vx), onp.asarray(S['Rx'](Uj, Qj, Xj, dt)), axes=([0, 1], [0, 1]))
        gotc = onp.asarray(S['rf3'].residual_jac_coords_vjp(Uj, dt, Xj, vx))
    if gotc.shape != refc.shape or rel(gotc, refc) > 1e-9:
        fails.append(Failure('residual-jac-coords-vjp', '%s: residual_jac_coords_vjp differs from the transposed dense Jacobian (rel %.2e)'
                             % (case['model'], rel(gotc, refc) if gotc.shape == refc.shape else -1)))
    return Result(fails, classes=classes, nontrivial=True, n_eval=5 if ivs.size else 1)


# ---------------------------------------------------------------------------------------------------
# adjoint function space
# ---------------------------------------------------------------------------------------------------

@st.composite
def afs_cases(draw):
    order = draw(st.integers(1, 3))
    mesh = draw(gen.lattice_mesh(nx=(1, 2), ny=(1, 2)))
    return {'order': order, 'mesh': mesh, 'mode': ['cartesian', 'axisymmetric'][draw(st.integers(0, 1))], 'qdeg': draw(st.integers(1, 6)),
            'pert': draw(st.lists(gen.floats(-1, 1), min_size=12, max_size=12)), 'amp': draw(gen.logfloat(-6, -1))}


def check_afs(case):
    import jax.numpy as np
    from optimism import FunctionSpace, QuadratureRule, Interpolants, Mesh
    from optimism.inverse import AdjointFunctionSpace
    from checks.c02_stiffness import smooth_field
    desc = dict(case['mesh'])
    c1, t1 = gen.mesh_arrays(desc)
    if case['mode'] == 'axisymmetric':
        c1 = c1.copy()
        c1[:, 0] += -c1[:, 0].min() + 0.5 * onp.ptp(c1[:, 0])
        desc = {'kind': 'explicit', 'coords': c1.tolist(), 'conns': t1.tolist()}
    mesh = gen.build_mesh(desc, order=case['order'])
    quad = QuadratureRule.create_quadrature_rule_on_triangle(case['qdeg'])
    coords = onp.asarray(mesh.coords)
    moved = coords + smooth_field(coords, case['pert'], case['amp'])          # smooth (affine-preserving only approximately) motion
    # element maps must stay affine: move vertices, then re-place higher-order nodes affinely
    if case['order'] > 1:
        base = gen.build_mesh({'kind': 'explicit', 'coords': moved[:c1.shape[0]].tolist(), 'conns': t1.tolist()}, order=case['order'])
        moved = onp.asarray(base.coords)
    shapeOnRef = Interpolants.compute_shapes(mesh.parentElement, quad.xigauss)
    a = AdjointFunctionSpace.construct_function_space_for_adjoint(np.array(moved), shapeOnRef, mesh, quad, case['mode'])
    b = FunctionSpace.construct_function_space(Mesh.mesh_with_coords(mesh, np.array(moved)), quad, case['mode'])
    fails = []
    for name in ('shapes', 'vols', 'shapeGrads'):
        x, y = onp.asarray(getattr(a, name)), onp.asarray(getattr(b, name))
        if x.shape != y.shape or onp.abs(x - y).max() > 1e-13 * (onp.abs(y).max() + 1e-300):
            fails.append(Failure('adjoint-function-space', '%s differs between the rebuilt and the directly constructed function space (order %d, %s)'
                                 % (name, case['order'], case['mode'])))
    if not onp.array_equal(onp.asarray(a.mesh.coords), moved) or a.isAxisymmetric != b.isAxisymmetric:
        fails.append(Failure('adjoint-function-space', 'mesh coordinates / axisymmetry flag of the rebuilt function space differ'))
    return Result(fails, classes=['order%d' % case['order'], case['mode']], nontrivial=bool(case['amp'] > 1e-5))


SUBCHECKS = [
    Sub('solve', solve_cases, check_solve, quick=60, thorough=2500, shards_quick=8, shards_thorough=8, required=('design', 'with_state', 'steps2', 'steps3'),
        budget_quick=170, timeout=300),
] + [
    Sub('helpers-' + nm.split('/')[0], (lambda nm=nm: helper_cases_for(nm)), check_helpers, quick=150, thorough=1500, shards_quick=2, shards_thorough=2,
        required=(('ivs-helpers',) if nm != 'neohookean/adagio' else ()), budget_quick=150, budget_thorough=900, timeout=600)
    for nm in HELPER_MODELS if nm != 'j2/large/voce' or _T
] + [
    Sub('adjoint-fs', afs_cases, check_afs, quick=60, thorough=2000, shards_quick=2, shards_thorough=2, required=('order1', 'order2', 'order3', 'axisymmetric')),
]
