"""C20 - VTK output is a well-formed dataset that round-trips (operation histories on one writer)."""
import os
import shutil
import tempfile

import numpy as onp
from hypothesis import strategies as st

from vlib.core import Sub, Result, Failure
from vlib import gen

PROPERTY = 'C20'
RULE = ('A case is a mesh (structured / lattice / Delaunay, element order 1-4) plus a generated history of writer operations: '
        'add_nodal_field and add_cell_field (scalar as (n,) or (n,1), 2- and 3-component vectors, 2x2 and 3x3 tensors, float and '
        'integer data, every matching VTKDataType, re-adding an existing name), add_sphere, add_contact_edges (repeated), write '
        '(repeated, consecutive). A model of the writer (ordered field tables, sphere list, edge list) predicts the dataset; after '
        'every write an independent token-level legacy-VTK reader parses the file and every count, connectivity entry, coordinate '
        'and value is compared with the model; consecutive writes must be byte-identical. Non-trivial: at least two feature kinds '
        'combined or at least two writes.')
ASSUMPTIONS = ['fields are supplied with the documented shapes and one row per mesh node / element',
               'contact edges refer to vertex nodes (the only nodes written for orders other than 2)',
               'the checker-side reader accepts exactly the legacy ASCII unstructured-grid grammar the property describes']

FLOAT_TYPES = ['FLOAT', 'DOUBLE']
INT_TYPES = ['INT', 'LONG', 'SHORT', 'UNSIGNED_INT', 'CHAR']
KINDS = ['scalar1d', 'scalar2d', 'vector2', 'vector3', 'tensor2', 'tensor3']


@st.composite
def field_op(draw, where):
    kind = draw(st.sampled_from(KINDS))
    isint = draw(st.booleans())
    dt = draw(st.sampled_from(INT_TYPES if isint else FLOAT_TYPES))
    name = draw(st.sampled_from(['a', 'b', 'c', 'temperature', 'u', 'sigma']))
    coef = draw(st.lists(st.integers(-5, 9), min_size=3, max_size=3)) if isint else \
        draw(st.lists(gen.floats(-1e3, 1e3), min_size=3, max_size=3))
    return {'op': where, 'name': name, 'kind': kind, 'int': isint, 'dtype': dt, 'coef': coef,
            'jax': draw(st.booleans())}


@st.composite
def cases(draw):
    order = draw(st.sampled_from([1, 2, 3, 1, 2, 4]))
    mesh = draw(gen.any_mesh(small=True))
    coords, conns = gen.mesh_arrays(mesh)
    nv = coords.shape[0]
    nops = draw(st.integers(2, 9))
    ops = []
    for _ in range(nops):
        k = draw(st.integers(0, 9))
        if k <= 2:
            ops.append(draw(field_op('nodal')))
        elif k <= 4:
            ops.append(draw(field_op('cell')))
        elif k == 5:
            ops.append({'op': 'sphere', 'x': draw(gen.floats(-10, 10)), 'y': draw(gen.floats(-10, 10)), 'r': draw(gen.floats(0.001, 5))})
        elif k == 6:
            ne = draw(st.integers(1, 3))
            ops.append({'op': 'edges', 'conn': [[draw(st.integers(0, nv - 1)), draw(st.integers(0, nv - 1))] for _ in range(ne)]})
        else:
            ops.append({'op': 'write'})
    ops.append({'op': 'write'})
    if draw(st.booleans()):
        ops.append({'op': 'write'})
    return {'mesh': mesh, 'order': order, 'ops': ops}


def make_data(op, n):
    """Deterministic field values from the drawn coefficients; all distinct enough to expose permutations."""
    shape = {'scalar1d': (n,), 'scalar2d': (n, 1), 'vector2': (n, 2), 'vector3': (n, 3), 'tensor2': (n, 2, 2),
             'tensor3': (n, 3, 3)}[op['kind']]
    idx = onp.arange(int(onp.prod(shape))).reshape(shape)
    row = onp.arange(n).reshape((n,) + (1,) * (len(shape) - 1))
    c = op['coef']
    if op['int']:
        return (c[0] * row + c[1] * idx + c[2]).astype(onp.int64)
    return c[0] * row + c[1] * 0.37 * idx + c[2] + 0.1


def pad3(data, kind):
    """What a reader should find: one record of 1, 3 or 9 values per entity (2D data embedded in 3D)."""
    d = onp.asarray(data)
    n = d.shape[0]
    if kind.startswith('scalar'):
        return d.reshape(n, 1)
    if kind.startswith('vector'):
        out = onp.zeros((n, 3), d.dtype)
        out[:, :d.shape[1]] = d
        return out
    out = onp.zeros((n, 3, 3), d.dtype)
    out[:, :d.shape[1], :d.shape[2]] = d
    return out.reshape(n, 9)


class ParseError(Exception):
    pass


def parse_vtk(text):
    """Independent reader for legacy ASCII unstructured grids (token based, strict counts)."""
    lines = text.split('\n')
    if len(lines) < 4 or not lines[0].startswith('# vtk DataFile Version'):
        raise ParseError('bad header line')
    if lines[2].strip() != 'ASCII':
        raise ParseError('not ASCII')
    if lines[3].strip() != 'DATASET UNSTRUCTURED_GRID':
        raise ParseError('not an unstructured grid')
    toks = ' '.join(lines[4:]).split()
    pos = [0]
    KEYWORDS = {'POINTS', 'CELLS', 'CELL_TYPES', 'POINT_DATA', 'CELL_DATA', 'SCALARS', 'VECTORS', 'TENSORS', 'LOOKUP_TABLE'}

    def peek():
        return toks[pos[0]] if pos[0] < len(toks) else None

    def take():
        if pos[0] >= len(toks):
            raise ParseError('unexpected end of file')
        t = toks[pos[0]]
        pos[0] += 1
        return t

    def expect(word):
        t = take()
        if t != word:
            raise ParseError('expected %s, found %r' % (word, t))

    def numbers(count, conv):
        out = []
        for _ in range(count):
            t = take()
            if t in KEYWORDS:
                raise ParseError('expected a number but found keyword %s (too few records)' % t)
            try:
                out.append(conv(t))
            except ValueError:
                raise ParseError('expected a number, found %r' % t)
        return out

    ds = {}
    expect('POINTS')
    npts = int(take())
    take()
    ds['points'] = onp.array(numbers(3 * npts, float)).reshape(npts, 3)
    expect('CELLS')
    nc = int(take())
    size = int(take())
    cells = []
    used = 0
    for _ in range(nc):
        k = numbers(1, int)[0]
        cells.append(numbers(k, int))
        used += k + 1
    if used != size:
        raise ParseError('CELLS declares size %d but the records use %d' % (size, used))
    ds['cells'] = cells
    expect('CELL_TYPES')
    nct = int(take())
    if nct != nc:
        raise ParseError('CELL_TYPES %d != CELLS %d' % (nct, nc))
    ds['cell_types'] = numbers(nct, int)

    def read_arrays(n):
        arrays = []
        while peek() in ('SCALARS', 'VECTORS', 'TENSORS'):
            kind = take()
            name = take()
            dtype = take()
            if kind == 'SCALARS':
                expect('LOOKUP_TABLE')
                take()
                width = 1
            else:
                width = 3 if kind == 'VECTORS' else 9
            conv = float if dtype in ('float', 'double') else int
            vals = onp.array(numbers(n * width, conv)).reshape(n, width)
            arrays.append((kind, name, dtype, vals))
        return arrays

    ds['point_data'] = None
    ds['cell_data'] = None
    while peek() is not None:
        t = take()
        if t == 'POINT_DATA':
            if ds['point_data'] is not None:
                raise ParseError('POINT_DATA twice')
            n = int(take())
            if n != npts:
                raise ParseError('POINT_DATA %d but %d points were written' % (n, npts))
            ds['point_data'] = read_arrays(n)
        elif t == 'CELL_DATA':
            if ds['cell_data'] is not None:
                raise ParseError('CELL_DATA twice')
            n = int(take())
            if n != nc:
                raise ParseError('CELL_DATA %d but %d cells were written' % (n, nc))
            ds['cell_data'] = read_arrays(n)
        else:
            raise ParseError('unexpected token %r (more records than declared?)' % t)
    return ds


def check(case):
    import jax.numpy as np
    from optimism.VTKWriter import VTKWriter, VTKFieldType, VTKDataType
    mesh = gen.build_mesh(case['mesh'], order=case['order'])
    coords = onp.asarray(mesh.coords)
    conns = onp.asarray(mesh.conns)
    nn, ne = coords.shape[0], conns.shape[0]
    nv = onp.asarray(mesh.simplexNodesOrdinals).size
    deg = case['order']
    out_nodes = onp.arange(nn) if deg == 2 else onp.arange(nv)
    vnodes = onp.asarray(mesh.parentElement.vertexNodes)
    tmp = tempfile.mkdtemp(prefix='c20_')
    fails = []
    features = set()
    nwrites = 0
    try:
        w = VTKWriter(mesh, baseFileName=os.path.join(tmp, 'out'))
        m_nodal, m_cell, m_spheres, m_edges = {}, {}, [], []
        FT = {'scalar': VTKFieldType.SCALARS, 'vector': VTKFieldType.VECTORS, 'tensor': VTKFieldType.TENSORS}
        prev_text = None
        last_was_write = False
        for op in case['ops']:
            if op['op'] in ('nodal', 'cell'):
                n = nn if op['op'] == 'nodal' else ne
                data = make_data(op, n)
                arr = np.array(data) if op['jax'] else data
                ft = FT[op['kind'][:6]]
                dt = VTKDataType[op['dtype']]
                if op['op'] == 'nodal':
                    w.add_nodal_field(op['name'], arr, ft, dt)
                    m_nodal[op['name']] = (op['kind'], dt.value, pad3(data[out_nodes], op['kind']))
                else:
                    w.add_cell_field(op['name'], arr, ft, dt)
                    m_cell[op['name']] = (op['kind'], dt.value, pad3(data, op['kind']))
                features.add(op['op'] + ':' + op['kind'][:6])
                last_was_write = False
            elif op['op'] == 'sphere':
                w.add_sphere(onp.array([op['x'], op['y']]), op['r'])
                m_spheres.append((op['x'], op['y'], op['r']))
                features.add('sphere')
                last_was_write = False
            elif op['op'] == 'edges':
                w.add_contact_edges(onp.array(op['conn']))
                m_edges += [list(e) for e in op['conn']]
                features.add('edges')
                last_was_write = False
            else:
                w.write()
                nwrites += 1
                with open(os.path.join(tmp, 'out.vtk')) as f:
                    text = f.read()
                if last_was_write and prev_text is not None and text != prev_text:
                    fails.append(Failure('write-twice', 'two consecutive write() calls produced different files '
                                                        '(%d vs %d characters)' % (len(prev_text), len(text))))
                prev_text = text
                last_was_write = True
                f = _compare(text, coords, conns, out_nodes, vnodes, deg, m_nodal, m_cell, m_spheres, m_edges)
                if f is not None:
                    fails.append(f)
                if fails:
                    break
    finally:
        shutil.rmtree(tmp, ignore_errors=True)
    classes = ['order%d' % deg] + sorted(features) + (['multi-write'] if nwrites >= 2 else [])
    if 'sphere' in features and any(f.startswith('nodal:tensor') for f in features):
        classes.append('sphere+nodal-tensor')
    if 'edges' in features and any(f.startswith('cell') for f in features):
        classes.append('edges+cell-field')
    return Result(fails, classes=classes, nontrivial=bool(len(features) >= 2 or nwrites >= 2))


def _compare(text, coords, conns, out_nodes, vnodes, deg, m_nodal, m_cell, m_spheres, m_edges):
    try:
        ds = parse_vtk(text)
    except ParseError as e:
        return Failure('structure', 'file is not a well-formed legacy VTK unstructured grid: %s' % e)
    npm = out_nodes.size
    exp_pts = onp.zeros((npm + len(m_spheres), 3))
    exp_pts[:npm, :2] = coords[out_nodes]
    for i, sp in enumerate(m_spheres):
        exp_pts[npm + i, :2] = sp[:2]
    if ds['points'].shape != exp_pts.shape:
        return Failure('points', 'file has %d points, expected %d mesh points + %d spheres' % (ds['points'].shape[0], npm, len(m_spheres)))
    if not onp.array_equal(ds['points'], exp_pts):
        return Failure('points', 'point coordinates differ from the supplied coordinates (max %.3e)' % onp.abs(ds['points'] - exp_pts).max())
    ne = conns.shape[0]
    if len(ds['cells']) != ne + len(m_edges):
        return Failure('cells', 'file has %d cells, expected %d elements + %d contact edges' % (len(ds['cells']), ne, len(m_edges)))
    npts = ds['points'].shape[0]
    for c in ds['cells']:
        if any(i < 0 or i >= npts for i in c):
            return Failure('connectivity-range', 'connectivity entry outside the written points: %r (points: %d)' % (c, npts))
    P = ds['points'][:, :2]
    for e in range(ne):
        c = ds['cells'][e]
        if deg == 2:
            if len(c) != 6 or ds['cell_types'][e] != 22:
                return Failure('cells', 'quadratic element %d written with %d nodes, type %d' % (e, len(c), ds['cell_types'][e]))
            v = [int(conns[e, k]) for k in vnodes]
            if list(c[:3]) != v:
                return Failure('connectivity', 'element %d vertices %r, expected %r' % (e, c[:3], v))
            for k, (a, b) in enumerate(((0, 1), (1, 2), (2, 0))):
                mid = 0.5 * (P[c[a]] + P[c[b]])
                if onp.abs(P[c[3 + k]] - mid).max() > 1e-12 * (1 + onp.abs(mid).max()):
                    return Failure('connectivity', 'element %d: mid-side node %d is not at the mid-point of its edge' % (e, k))
        else:
            v = [int(conns[e, k]) for k in vnodes]
            if list(c) != v or ds['cell_types'][e] != 5:
                return Failure('connectivity', 'element %d written as %r (type %d), expected vertices %r (type 5)' % (e, c, ds['cell_types'][e], v))
    for k, ed in enumerate(m_edges):
        c = ds['cells'][ne + k]
        if list(c) != list(ed) or ds['cell_types'][ne + k] != 3:
            return Failure('contact-edges', 'contact edge %d written as %r (type %d), expected %r (type 3)' % (k, c, ds['cell_types'][ne + k], ed))

    def cmp_arrays(got, model, n_pad, what, extra=None):
        exp = []
        for name, (kind, dtype, vals) in model.items():
            width = vals.shape[1]
            padded = onp.vstack([vals, onp.zeros((n_pad, width), vals.dtype)]) if n_pad else vals
            exp.append(({'s': 'SCALARS', 'v': 'VECTORS', 't': 'TENSORS'}[kind[0]], name, dtype, padded))
        if extra is not None:
            exp.append(extra)
        if got is None:
            got = []
        if [g[:3] for g in got] != [x[:3] for x in exp]:
            return Failure(what + '-arrays', '%s arrays in file %r, expected %r' % (what, [g[:3] for g in got], [x[:3] for x in exp]))
        for g, x in zip(got, exp):
            if g[3].shape != x[3].shape:
                return Failure(what + '-count', '%s array %s has %d records, expected %d' % (what, g[1], g[3].shape[0], x[3].shape[0]))
            if not onp.array_equal(g[3], x[3].astype(g[3].dtype)):
                bad = int(onp.flatnonzero(onp.any(g[3] != x[3], axis=1))[0])
                return Failure(what + '-values', '%s array %s: record %d is %r, expected %r' % (what, g[1], bad, g[3][bad].tolist(), x[3][bad].tolist()))
        return None

    extra = None
    if m_spheres:
        rad = onp.concatenate([onp.zeros(npm), onp.array([s[2] for s in m_spheres])]).reshape(-1, 1)
        extra = ('SCALARS', 'sphere_radius', 'double', rad)
    if m_nodal or m_spheres:
        f = cmp_arrays(ds['point_data'], m_nodal, len(m_spheres), 'point', extra)
        if f is not None:
            return f
    elif ds['point_data']:
        return Failure('point-arrays', 'unexpected POINT_DATA section')
    if m_cell:
        f = cmp_arrays(ds['cell_data'], m_cell, len(m_edges), 'cell')
        if f is not None:
            return f
    elif ds['cell_data']:
        return Failure('cell-arrays', 'unexpected CELL_DATA section')
    return None


SUBCHECKS = [
    Sub('history', cases, check, quick=250, thorough=8000, shards_quick=16, shards_thorough=16,
        required=('order1', 'order2', 'order3', 'order4', 'sphere', 'edges', 'multi-write', 'sphere+nodal-tensor',
                  'edges+cell-field'), budget_quick=170),
]
