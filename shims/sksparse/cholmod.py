"""Dense stand-in for the part of sksparse.cholmod that optimism.SparseCholesky uses.

Appended at the END of sys.path, so a real scikit-sparse wins when present.
Surface: analyze, cholesky, Factor.cholesky_inplace, Factor.cholesky,
Factor.__call__, CholmodNotPositiveDefiniteError.
"""
import numpy as _np
import scipy.linalg as _la


class CholmodError(Exception):
    pass


class CholmodNotPositiveDefiniteError(CholmodError):
    pass


def _dense(A):
    return _np.asarray(A.toarray() if hasattr(A, 'toarray') else A, dtype=float)


class Factor:
    def __init__(self):
        self._c = None

    def cholesky_inplace(self, A, beta=0):
        M = _dense(A)
        if beta:
            M = M + beta * _np.eye(M.shape[0])
        if M.shape[0] == 0:
            self._c = None
            self._n = 0
            return
        if not _np.all(_np.isfinite(M)):
            raise CholmodNotPositiveDefiniteError('matrix has non-finite entries')
        try:
            self._c = _la.cho_factor(M, lower=True, check_finite=False)
        except _la.LinAlgError as e:
            raise CholmodNotPositiveDefiniteError(str(e))
        self._n = M.shape[0]

    def cholesky(self, A, beta=0):
        f = Factor()
        f.cholesky_inplace(A, beta)
        return f

    def __call__(self, b):
        b = _np.asarray(b, dtype=float)
        if self._n == 0:
            return b.copy()
        return _la.cho_solve(self._c, b, check_finite=False)

    solve_A = __call__


def analyze(A, mode='auto', ordering_method='default', use_long=None):
    return Factor()


def cholesky(A, beta=0, mode='auto', ordering_method='default', use_long=None):
    f = Factor()
    f.cholesky_inplace(A, beta)
    return f
