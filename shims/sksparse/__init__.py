# Stand-in for the absent third-party package scikit-sparse (see DESIGN.md section 2).
