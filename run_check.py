#!/venv/bin/python
"""Entry point: run_check.py <PROPERTY> --tier quick|thorough [--replay file.json]"""
import os
import sys

sys.path.insert(0, os.path.dirname(os.path.abspath(__file__)))
from vlib import core

if __name__ == '__main__':
    sys.exit(core.main())
